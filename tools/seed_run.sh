#!/bin/bash
# seed_run.sh <seed_id> <property> [tier]: apply the seeded change to /repo, run the check, undo it,
# and record the outcome in /verif/seeded/<seed_id>/result.json.
ID=$1; PROP=$2; TIER=${3:-quick}
cd /repo || exit 2
if [ -n "$(git status --porcelain --untracked-files=no)" ]; then echo "/repo is dirty"; exit 2; fi
git apply /verif/seeded/$ID/patch.diff || { echo "patch does not apply"; exit 2; }
cd /verif
t0=$(date +%s)
VERIF_EVIDENCE_DIR=/tmp/seed-evidence VERIF_REPLAY_DIR=/tmp/seed-replays bin/check $PROP --tier $TIER > /tmp/seedrun-$ID-$PROP.log 2>&1
rc=$?
t1=$(date +%s)
git -C /repo checkout -- .
grep -E "^VIOLATION|^\[violation\]|^UNDECIDED|^\[$PROP\]" /tmp/seedrun-$ID-$PROP.log | cut -c1-400
echo "seed=$ID property=$PROP exit=$rc"
python3 - "$ID" "$PROP" "$TIER" "$rc" "$((t1-t0))" <<'PY'
import json, sys, re, os
sid, prop, tier, rc, wall = sys.argv[1:6]
log = open(f"/tmp/seedrun-{sid}-{prop}.log", errors="replace").read()
vio = [l[:300] for l in log.splitlines() if l.startswith("[violation]")]
und = [l[:300] for l in log.splitlines() if l.startswith("UNDECIDED")]
p = f"/verif/seeded/{sid}/result.json"
d = json.load(open(p)) if os.path.exists(p) else {"seed": sid, "runs": []}
d["runs"] = [r for r in d["runs"] if not (r["property"] == prop and r["tier"] == tier)]
d["runs"].append({"property": prop, "tier": tier, "exit": int(rc), "wall_s": int(wall),
                  "outcome": {"0": "missed (check passed)", "1": "caught (VIOLATION)", "2": "undecided (exit 2: not a pass, not an alarm)"}.get(rc, rc),
                  "failed_obligations": vio[:8], "undecided": und[:2]})
d["caught"] = any(r["exit"] == 1 for r in d["runs"])
json.dump(d, open(p, "w"), indent=1)
PY
