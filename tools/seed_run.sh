#!/bin/bash
# seed_run.sh <seed_id> <property> [tier]: apply the seeded change to /repo, run the check, undo it.
ID=$1; PROP=$2; TIER=${3:-quick}
cd /repo || exit 2
if [ -n "$(git status --porcelain --untracked-files=no)" ]; then echo "/repo is dirty"; exit 2; fi
git apply /verif/seeded/$ID/patch.diff || { echo "patch does not apply"; exit 2; }
cd /verif
VERIF_EVIDENCE_DIR=/tmp/seed-evidence VERIF_REPLAY_DIR=/tmp/seed-replays bin/check $PROP --tier $TIER > /tmp/seedrun-$ID-$PROP.log 2>&1
rc=$?
git -C /repo checkout -- .
grep -E "^VIOLATION|^\[violation\]|^UNDECIDED|^\[$PROP\]" /tmp/seedrun-$ID-$PROP.log | cut -c1-400
echo "seed=$ID property=$PROP exit=$rc"
