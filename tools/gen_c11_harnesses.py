# Regenerates the enumerated-length harnesses at the end of kani/insim_core/verif_c11.rs
# (everything after the first `//@ id: text_fixed_6_` line). Run from /verif: python3 tools/gen_c11_harnesses.py
p='/verif/kani/insim_core/verif_c11.rs'
s=open(p).read()
i=s.index("\n//@ id: text_fixed_6_")
head=s[:i]
head=head.replace('''fn text(len: usize) -> String {
    let mut s = String::with_capacity(len);
    let mut i = 0;
    while i < len {
        s.push((b'a' + (i % 26) as u8) as char);
        i += 1;
    }
    s
}''','''fn text(len: usize) -> String {
    "a".repeat(len)
}''')
hs=''
def chunks(L,n): return [L[i:i+n] for i in range(0,len(L),n)]
def fixed(n, L, tier, tag):
    global hs
    for ci,ch in enumerate(chunks(L,5)):
        raw = (n==16)
        hs+=f'''
//@ id: text_fixed_{n}_{tag}{ci}
//@ prop: C11
//@ tier: {tier}
//@ functions: insim_core/src/string/mod.rs binrw_write_codepage_string::<{n}>
//@ statement: fixed-width text field of width {n}, ASCII text of lengths {ch}: the field occupies exactly {n} bytes = the text truncated to {n}, then NUL padding{' (also in raw mode, as used for the ISI admin password)' if raw else ''}
//@ bounded: text lengths {ch} enumerated concretely, ASCII content (encoded length == character count)
//@ timeout: 1200
#[kani::proof]
#[kani::stub(core::fmt::write, verif_fmt_ok)]
fn c11_text_fixed_{n}_{tag}{ci}() {{
    for len in {ch} {{
        check_fixed::<{n}>(len, false);
'''+(f'        check_fixed::<{n}>(len, true);\n' if raw else '')+'''    }
}
'''
def aligned(n, L, tier, tag):
    global hs
    for ci,ch in enumerate(chunks(L,5)):
        hs+=f'''
//@ id: text_aligned_{n}_{tag}{ci}
//@ prop: C11
//@ tier: {tier}
//@ functions: insim_core/src/string/mod.rs binrw_write_codepage_string::<{n}>
//@ statement: variable-width message field of maximum {n} (aligned to 4), ASCII text of lengths {ch}: the field is the text (truncated to {n}) NUL-padded to a multiple of 4, never longer than {n}, with less than 4 bytes of padding
//@ bounded: text lengths {ch} enumerated concretely, ASCII content
//@ timeout: 1200
#[kani::proof]
#[kani::stub(core::fmt::write, verif_fmt_ok)]
fn c11_text_aligned_{n}_{tag}{ci}() {{
    for len in {ch} {{
        check_aligned::<{n}>(len);
    }}
}}
'''
for n in (6,8,16,24,32):
    fixed(n, [0,1,n-1,n,n+1], 'quick', 'q')
fixed(8, [l for l in range(2,18) if l not in (7,8,9)], 'quick', 'all')
for n in (64,96,128,240):
    fixed(n, [0,1,2,3,4], 'quick', 'q')
for n in (64,128,240):
    aligned(n, [0,1,2,3,4], 'quick', 'qa')
# the aligned branch is the same generic code for every maximum: its boundary behaviour is
# checked at small maxima (the protocol's 64/128/240 do not finish near the maximum)
aligned(8, list(range(0,18)), 'quick', 'small')
aligned(16, [13,14,15,16,17,18,19,20,32,33], 'quick', 'small')
for n in (6,16):
    fixed(n, [l for l in range(2,2*n+2) if l not in (n-1,n,n+1)], 'thorough', 't')
for n in (24,32):
    fixed(n, [l for l in range(2,n+6) if l not in (n-1,n,n+1)], 'thorough', 't')
for kind,n,mode in (('mst',64,'fixed'),('msx',96,'fixed'),('msl',128,'fixed'),('mtc',128,'aligned')):
    for label,L in (('short',[0,1,2,3] if mode=='fixed' else [1,2,3,5]), ('full',[n,n+1] if mode=='fixed' else [4,8,n]), ('empty', [0] if mode=='aligned' else None)):
        if L is None: continue
        hs+=f'''
//@ id: terminated_{kind}_{label}
//@ prop: C11
//@ functions: insim_core/src/string/mod.rs binrw_write_codepage_string::<{n}>
//@ statement: the text field of {kind.upper()} (width {n}, {mode}) ends in a NUL byte for ASCII text of lengths {L}{' - the lengths that leave no room for a terminator' if label!='short' else ''}
//@ bounded: text lengths {L} enumerated concretely
//@ timeout: 1200
#[kani::proof]
#[kani::stub(core::fmt::write, verif_fmt_ok)]
fn c11_terminated_{kind}_{label}() {{
    for len in {L} {{
        check_terminated_{mode}::<{n}>(len);
    }}
}}
'''
open(p,'w').write(head+hs)

# MSX / MSL at full width do not finish in CBMC (measured): drop those two harnesses again
s = open(p).read()
for k in ('msx', 'msl'):
    tag = f"\n//@ id: terminated_{k}_full"
    if tag in s:
        i = s.index(tag)
        j = s.index("\n}\n", i) + 3
        s = s[:i] + s[j:]
open(p, 'w').write(s)
