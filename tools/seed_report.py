#!/usr/bin/env python3
"""Write /verif/seeded/RESULTS.md from seeded/*/meta.json + result.json."""
import json, glob, os
rows = []
for d in sorted(glob.glob("/verif/seeded/*/")):
    sid = os.path.basename(d.rstrip("/"))
    if not os.path.exists(d + "meta.json"):
        continue
    m = json.load(open(d + "meta.json"))
    r = json.load(open(d + "result.json")) if os.path.exists(d + "result.json") else {"runs": [], "caught": None}
    rows.append((sid, m, r))
out = ["# Seeded changes and the checks that catch them\n",
       "Each seed was produced by an independent sub-agent that saw only the property text, and was confirmed by",
       "`tools/seed_verify.sh` (applies to /repo HEAD, workspace builds, the 58 tests pass with it, its demo fails with it and",
       "passes without it). `tools/seed_run.sh` applies it to /repo, runs the property's check and undoes it.\n",
       "| Seed | Property | What it changes | Needs | Result | Failing obligation(s) / reason |", "|---|---|---|---|---|---|"]
n = caught = und = 0
for sid, m, r in rows:
    n += 1
    res = "not run"
    why = ""
    if r["runs"]:
        if r.get("caught"):
            res = "**caught**"; caught += 1
        elif any(x["exit"] == 2 for x in r["runs"]):
            res = "undecided (exit 2)"; und += 1
        else:
            res = "missed"
        fo = []
        for x in r["runs"]:
            for v in x.get("failed_obligations", [])[:2]:
                fo.append(v.replace("[violation] ", "").split(" @ ")[0][:160])
            for v in x.get("undecided", [])[:1]:
                fo.append(v[:160])
        why = "<br>".join(fo)
    miss = m.get("miss_reason", "")
    if miss and not r.get("caught"):
        why = (why + "<br>" if why else "") + "_" + miss + "_"
    out.append(f"| {sid} | {m.get('property')} | {(m.get('summary') or '')[:200].replace('|', '/')} | {(m.get('needs') or '')[:160].replace('|', '/')} | {res} | {why.replace('|', '/')} |")
out.append(f"\n{n} seeds: {caught} caught, {und} undecided (lost anchor / timeout: never reported as a pass), {n - caught - und} missed or not run.\n")
open("/verif/seeded/RESULTS.md", "w").write("\n".join(out))
print(f"{n} seeds, {caught} caught, {und} undecided")
