#!/bin/bash
# seed_verify.sh <agent_out_dir> <k> <seed_id>
# Confirms a seeded change against /repo's current HEAD in a scratch worktree:
#  applies, builds, test-suite passes (58), demo fails with it and passes without it.
# On success stores /verif/seeded/<seed_id>/{patch.diff,demo.rs,meta.json}.
set -u
OUT=$1; K=$2; ID=$3
WT=/tmp/sv-$ID
export CARGO_TARGET_DIR=/tmp/sv-target CARGO_NET_OFFLINE=true
rm -rf $WT; git -C /repo worktree prune; git -C /repo worktree add -q --detach $WT HEAD || exit 2
cleanup() { git -C /repo worktree remove --force $WT 2>/dev/null; }
trap cleanup EXIT
cd $WT
first=$(head -3 $OUT/demo$K.rs | tr '\n' ' ')
case "$first" in
  *insim_core/tests*) crate=insim_core;;
  *insim_pth/tests*) crate=insim_pth;;
  *insim_smx/tests*) crate=insim_smx;;
  *) crate=insim;;
esac
mkdir -p $crate/tests; cp $OUT/demo$K.rs $crate/tests/demo.rs
echo "== demo on pristine HEAD (must pass)"
if ! cargo test -p $crate --test demo --offline >/tmp/sv-$ID.pristine.log 2>&1; then echo "SEED-REJECT: demo fails on pristine HEAD"; tail -15 /tmp/sv-$ID.pristine.log; exit 1; fi
if ! git apply --check $OUT/patch$K.diff 2>/tmp/sv-$ID.apply.log; then echo "SEED-REJECT: patch does not apply to HEAD"; cat /tmp/sv-$ID.apply.log; exit 1; fi
git apply $OUT/patch$K.diff
echo "== demo with patch (must fail)"
if cargo test -p $crate --test demo --offline >/tmp/sv-$ID.patched.log 2>&1; then echo "SEED-REJECT: demo passes with patch"; exit 1; fi
grep -E "^test result|panicked|error(\[|:)" /tmp/sv-$ID.patched.log | head -5
rm -rf $crate/tests/demo.rs; rmdir $crate/tests 2>/dev/null
echo "== test suite with patch (must pass 58)"
cargo test --workspace --no-fail-fast --offline >/tmp/sv-$ID.suite.log 2>&1
pass=$(grep -E "^test result" /tmp/sv-$ID.suite.log | awk '{s+=$4} END {print s}')
fail=$(grep -E "^test result" /tmp/sv-$ID.suite.log | awk '{s+=$6} END {print s}')
echo "suite: passed=$pass failed=$fail"
if [ "$pass" != "58" ] || [ "$fail" != "0" ]; then echo "SEED-REJECT: suite changed"; exit 1; fi
mkdir -p /verif/seeded/$ID
cp $OUT/patch$K.diff /verif/seeded/$ID/patch.diff
cp $OUT/demo$K.rs /verif/seeded/$ID/demo.rs
python3 - "$OUT/meta$K.json" "$ID" "$crate" <<'PY'
import json,sys
m=json.load(open(sys.argv[1]))
out={"seed": sys.argv[2], "property": m.get("property"), "summary": m.get("summary"), "needs": m.get("needs"), "files": m.get("files"),
     "demo": f"{sys.argv[3]}/tests/demo.rs ; cargo test -p {sys.argv[3]} --test demo --offline",
     "confirmed_by": "tools/seed_verify.sh on a scratch worktree of /repo HEAD: patch applies, workspace builds, test-suite 58 passed / 0 failed with the patch, demo fails with the patch and passes without it",
     "agent_ran": m.get("ran")}
json.dump(out, open(f"/verif/seeded/{sys.argv[2]}/meta.json","w"), indent=1)
PY
echo "SEED-OK $ID"
