#!/usr/bin/env python3
"""devkani.py <timeout_s> <module::harness>... : run harnesses in the persistent dev copy /tmp/kp/repo."""
import sys, subprocess, re, os
sys.path.insert(0, '/verif/lib')
from vf import kani
tmo = sys.argv[1]
hs = sys.argv[2:]
cmd = ["cargo", "kani", "-p", "insim"] + kani.KANI_FLAGS + ["--no-default-features", "--features", "blocking"]
for h in hs:
    cmd += ["--harness", h]
cmd += ["--exact", "-j", str(min(16, len(hs))), "--harness-timeout", f"{tmo}s", "--output-format", "terse"]
env = dict(os.environ, CARGO_TARGET_DIR="/tmp/kp/target", CARGO_NET_OFFLINE="true")
p = subprocess.run(cmd, cwd="/tmp/kp/repo", env=env, capture_output=True, text=True)
if "error: could not compile" in p.stdout + p.stderr:
    print("\n".join(l for l in (p.stdout + p.stderr).splitlines() if l.startswith("error") or "-->" in l)[:3000])
res = kani.parse_output(p.stdout, hs)
for h in hs:
    r = res.get(h.split("::")[-1])
    if not r:
        print(h, "NO RESULT"); continue
    print(f"{h}: {r['status']} {r['time']:.1f}s checks={r['checks']} failed={r['failed']} covers={r['covers']} {[f['check'][:90] for f in r['failed_checks']][:4]} {'TIMEOUT' if 'timed out' in r['raw'] else ''}")
