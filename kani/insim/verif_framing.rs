//! Kani twins of the Verus unit `framing` (full domain, bit-precise, real `bytes` crate).
use bytes::BytesMut;

use crate::net::mode::Mode;

fn any_mode() -> Mode {
    if kani::any() {
        Mode::Compressed
    } else {
        Mode::Uncompressed
    }
}

fn spec_max(m: &Mode) -> usize {
    match m {
        Mode::Uncompressed => 255,
        Mode::Compressed => 1020,
    }
}

//@ id: encode_length_twin
//@ prop: C03
//@ functions: insim/src/net/mode.rs Mode::encode_length
//@ statement: for all usize len and both modes: if encode_length returns, then it returns Ok(n), len % 4 == 0, 4 <= len <= max(mode), and n == len (uncompressed) or 4*n == len (compressed). Panics inside encode_length are the permitted loud refusal.
//@ allow-panic-in: encode_length
//@ covers: 2
#[kani::proof]
fn c03_encode_length_twin() {
    let mode = any_mode();
    let len: usize = kani::any();
    let r = mode.encode_length(len);
    // reached only when the call returned
    assert!(r.is_ok(), "returns Ok");
    if let Ok(n) = &r {
        assert!(len >= 4, "returned => len >= 4");
        assert!(len % 4 == 0, "returned => len % 4 == 0");
        assert!(len <= spec_max(&mode), "returned => len <= max(mode)");
        match mode {
            Mode::Uncompressed => assert!(*n as usize == len, "size byte == len (uncompressed)"),
            Mode::Compressed => assert!(4 * (*n as usize) == len, "4 * size byte == len (compressed)"),
        }
    }
    kani::cover!(matches!(mode, Mode::Compressed) && r.is_ok(), "compressed returns");
    kani::cover!(matches!(mode, Mode::Uncompressed) && r.is_ok(), "uncompressed returns");
    core::mem::forget(r);
}

//@ id: encode_length_accepts
//@ prop: C03
//@ functions: insim/src/net/mode.rs Mode::encode_length
//@ statement: for every legal frame length (multiple of 4, 4..=max(mode)) encode_length returns without panicking (so the refusal branch is not taken for encodable packets)
//@ covers: 1
#[kani::proof]
fn c03_encode_length_accepts() {
    let mode = any_mode();
    let len: usize = kani::any();
    kani::assume(len >= 4 && len % 4 == 0 && len <= spec_max(&mode));
    let r = mode.encode_length(len);
    assert!(r.is_ok());
    kani::cover!(len == 1020, "largest compressed frame");
    core::mem::forget(r);
}

//@ id: decode_length_twin
//@ prop: C04
//@ functions: insim/src/net/mode.rs Mode::decode_length
//@ statement: for every buffer of 0..=8 bytes plus any longer buffer abstracted by its first byte and length class, both modes: no panic; Ok(Some(n)) => 4 <= n == announced <= len(src), n <= max; Ok(None) => len < 4 or len < announced; Err => announced > max or announced < 4
//@ covers: 3
#[kani::proof]
fn c04_decode_length_twin() {
    let mode = any_mode();
    let first: u8 = kani::any();
    let len: usize = kani::any();
    kani::assume(len <= 1100);
    // the function reads only len() and first(): content beyond byte 0 is irrelevant
    let mut src = BytesMut::zeroed(len);
    if len > 0 {
        src[0] = first;
    }
    let announced = match mode {
        Mode::Uncompressed => first as usize,
        Mode::Compressed => (first as usize) * 4,
    };
    let r = mode.decode_length(&src);
    assert!(src.len() == len);
    match &r {
        Ok(Some(n)) => {
            assert!(len >= 4, "announce only with a header");
            assert!(*n == announced, "n == announced length");
            assert!(*n >= 4, "announced frame is at least 4 bytes");
            assert!(*n <= len, "announced frame is completely buffered");
            assert!(*n <= spec_max(&mode), "n <= max(mode)");
        },
        Ok(None) => assert!(len < 4 || len < announced, "need-more only when incomplete"),
        Err(_) => assert!(len >= 4 && (announced > spec_max(&mode) || announced < 4), "framing error only for impossible length"),
    }
    kani::cover!(matches!(r, Ok(Some(_))), "complete frame");
    kani::cover!(matches!(r, Ok(None)) && len >= 4, "incomplete frame");
    kani::cover!(r.is_err(), "framing error");
    core::mem::forget(r);
}
