//! C18: the handshake packet carries exactly the configured options (Builder::isi and the
//! ISI-related setters). Only the public builder API is used; the observable is the Isi
//! value returned by Builder::isi().
use std::{
    net::{Ipv4Addr, SocketAddr, SocketAddrV4},
    time::Duration,
};

use crate::{
    builder::Builder,
    identifiers::RequestId,
    insim::{Isi, IsiFlags},
};

const DEFINED_BITS: u16 = 0b1111_1111_1100; // ISF_LOCAL (4) .. ISF_REQ_JOIN (2048)

fn addr(port: u16) -> SocketAddr {
    SocketAddr::V4(SocketAddrV4::new(Ipv4Addr::new(127, 0, 0, 1), port))
}

struct Cfg {
    flags: u16,
    reqi: u8,
    prefix: Option<u8>,
    interval: Option<u16>,
    iname: bool,
    admin: bool,
}

/// `iname` / `admin` (presence of the two text options) are concrete: a String whose
/// presence is symbolic does not finish in CBMC (measured); harnesses enumerate the 4 cases.
fn any_cfg(iname: bool, admin: bool) -> Cfg {
    Cfg {
        flags: kani::any::<u16>() & DEFINED_BITS,
        reqi: kani::any(),
        prefix: if kani::any() { Some(kani::any()) } else { None },
        interval: if kani::any() { Some(kani::any()) } else { None },
        iname,
        admin,
    }
}

const PRESENCE: [(bool, bool); 4] = [(false, false), (true, false), (false, true), (true, true)];

/// An arbitrary ISI-relevant builder state, reached through the wholesale setters.
fn build(c: &Cfg) -> Builder {
    let mut b = Builder::new().isi_flags(IsiFlags::from_bits_truncate(c.flags)).isi_reqi(RequestId(c.reqi));
    if let Some(p) = c.prefix {
        b = b.isi_prefix(p as char);
    }
    if let Some(i) = c.interval {
        b = b.isi_interval(Duration::from_millis(i as u64));
    }
    if c.iname {
        b = b.isi_iname("prog".to_string());
    }
    if c.admin {
        b = b.isi_admin_password("pw".to_string());
    }
    b
}

fn check_isi(isi: &Isi, c: &Cfg, port: u16) {
    assert!(isi.flags.bits() == c.flags, "ISI carries exactly the configured flags");
    assert!(isi.reqi == RequestId(c.reqi), "ISI carries the configured request id");
    assert!(isi.prefix == c.prefix.map(|p| p as char).unwrap_or('\0'), "ISI prefix is the configured one, NUL when unset");
    assert!(isi.interval == Duration::from_millis(c.interval.unwrap_or(0) as u64), "ISI interval is the configured one, 0 when unset");
    assert!(isi.version == 9, "ISI announces InSim version 9");
    assert!(isi.udpport == port, "ISI UDP port is the local port for UDP, 0 otherwise");
    if c.iname {
        assert!(isi.iname == "prog", "ISI carries the configured program name");
    } else {
        assert!(isi.iname == "insim.rs", "default program name");
    }
    if c.admin {
        assert!(isi.admin == "pw", "ISI carries the configured admin password");
    } else {
        assert!(isi.admin.is_empty(), "default admin password is empty");
    }
}

//@ id: isi_tcp_relay
//@ prop: C18
//@ functions: insim/src/builder.rs Builder::isi; insim/src/builder.rs Builder::isi_flags; insim/src/builder.rs Builder::isi_reqi; insim/src/builder.rs Builder::isi_prefix; insim/src/builder.rs Builder::isi_interval; insim/src/builder.rs Builder::isi_iname; insim/src/builder.rs Builder::isi_admin_password; insim/src/builder.rs Builder::tcp; insim/src/builder.rs Builder::relay
//@ statement: for ALL flag subsets (all 2^10 defined bits), request ids, prefix/interval present-or-absent with any value, program name / admin password present-or-absent (constant text), over TCP or relay: isi() does not panic and carries exactly the configured values, the documented defaults for anything unset ("insim.rs", empty password, NUL prefix, interval 0, version 9) and UDP port 0
//@ covers: 2
//@ timeout: 900
#[kani::proof]
fn c18_isi_tcp_relay() {
    for (iname, admin) in PRESENCE {
        let c = any_cfg(iname, admin);
        let mut b = build(&c);
        let relay: bool = kani::any();
        if relay {
            b = b.relay();
        } else {
            b = b.tcp(addr(kani::any()));
        }
        let isi = b.isi();
        check_isi(&isi, &c, 0);
        kani::cover!(c.prefix.is_some() && c.interval.is_none() && c.iname, "mixed presence");
        kani::cover!(relay, "relay");
        core::mem::forget(isi);
        core::mem::forget(b);
    }
}

//@ id: isi_udp
//@ prop: C18
//@ functions: insim/src/builder.rs Builder::isi; insim/src/builder.rs Builder::udp
//@ statement: for ALL configurations as above over UDP, with a local address (any port) or WITHOUT one: isi() does not panic; the UDP port is the configured local port, or 0 when no local address was given
//@ covers: 2
//@ timeout: 900
#[kani::proof]
fn c18_isi_udp() {
    for (iname, admin) in PRESENCE {
        let c = any_cfg(iname, admin);
        let b = build(&c);
        let with_local: bool = kani::any();
        let port: u16 = kani::any();
        let b = if with_local {
            b.udp(addr(kani::any()), Some(addr(port)))
        } else {
            b.udp(addr(kani::any()), None)
        };
        let isi = b.isi();
        check_isi(&isi, &c, if with_local { port } else { 0 });
        kani::cover!(with_local, "UDP with a local address");
        kani::cover!(!with_local, "UDP without a local address");
        core::mem::forget(isi);
        core::mem::forget(b);
    }
}

fn flag_setter(b: Builder, which: u8, on: bool) -> (Builder, u16) {
    // bit values from InSim.txt: ISF_LOCAL 4, ISF_MSO_COLS 8, ISF_NLP 16, ISF_MCI 32, ISF_CON 64,
    // ISF_OBH 128, ISF_HLV 256, ISF_AXM_LOAD 512, ISF_AXM_EDIT 1024, ISF_REQ_JOIN 2048
    match which {
        0 => (b.isi_flag_local(on), 4),
        1 => (b.isi_flag_mso_cols(on), 8),
        2 => (b.isi_flag_nlp(on), 16),
        3 => (b.isi_flag_mci(on), 32),
        4 => (b.isi_flag_con(on), 64),
        5 => (b.isi_flag_obh(on), 128),
        6 => (b.isi_flag_hlv(on), 256),
        7 => (b.isi_flag_axm_load(on), 512),
        8 => (b.isi_flag_axm_edit(on), 1024),
        _ => (b.isi_flag_req_join(on), 2048),
    }
}

//@ id: flag_setters_frame
//@ prop: C18
//@ functions: insim/src/builder.rs Builder::isi_flag_local; insim/src/builder.rs Builder::isi_flag_mso_cols; insim/src/builder.rs Builder::isi_flag_nlp; insim/src/builder.rs Builder::isi_flag_mci; insim/src/builder.rs Builder::isi_flag_con; insim/src/builder.rs Builder::isi_flag_obh; insim/src/builder.rs Builder::isi_flag_hlv; insim/src/builder.rs Builder::isi_flag_axm_load; insim/src/builder.rs Builder::isi_flag_axm_edit; insim/src/builder.rs Builder::isi_flag_req_join
//@ statement: from ANY builder state, each of the 10 flag setters, on or off, changes exactly its own InSim bit (ISF_LOCAL=4 ... ISF_REQ_JOIN=2048) in the resulting ISI and nothing else (frame condition: all other flags and all other ISI fields unchanged) - by induction this covers every call sequence in any order, later calls overriding earlier ones
//@ covers: 2
//@ timeout: 900
#[kani::proof]
fn c18_flag_setters_frame() {
    for (iname, admin) in PRESENCE {
        let c = any_cfg(iname, admin);
        let b = build(&c);
        let which: u8 = kani::any();
        kani::assume(which < 10);
        let on: bool = kani::any();
        let (b2, bit) = flag_setter(b, which, on);
        let isi = b2.isi();
        let expect = if on { c.flags | bit } else { c.flags & !bit };
        let c2 = Cfg { flags: expect, reqi: c.reqi, prefix: c.prefix, interval: c.interval, iname: c.iname, admin: c.admin };
        check_isi(&isi, &c2, 0);
        kani::cover!(on && (c.flags & bit) == 0, "bit switched on");
        kani::cover!(!on && (c.flags & bit) != 0, "bit switched off");
        core::mem::forget(isi);
        core::mem::forget(b2);
    }
}

//@ id: field_setters_frame
//@ prop: C18
//@ functions: insim/src/builder.rs Builder::isi_flags; insim/src/builder.rs Builder::isi_reqi; insim/src/builder.rs Builder::isi_prefix; insim/src/builder.rs Builder::isi_interval
//@ statement: from ANY builder state, each wholesale setter (flags, request id, prefix incl. back to None, interval incl. back to None) replaces exactly its own field of the resulting ISI (later calls override earlier ones) and leaves every other field unchanged
//@ covers: 1
//@ timeout: 1200
#[kani::proof]
fn c18_field_setters_frame() {
    for (iname, admin) in PRESENCE {
        let c = any_cfg(iname, admin);
        let b = build(&c);
        let which: u8 = kani::any();
        kani::assume(which < 6);
        let mut c2 = Cfg { flags: c.flags, reqi: c.reqi, prefix: c.prefix, interval: c.interval, iname: c.iname, admin: c.admin };
        let b2 = match which {
            0 => {
                c2.flags = kani::any::<u16>() & DEFINED_BITS;
                b.isi_flags(IsiFlags::from_bits_truncate(c2.flags))
            },
            1 => {
                c2.reqi = kani::any();
                b.isi_reqi(RequestId(c2.reqi))
            },
            2 => {
                let p: u8 = kani::any();
                c2.prefix = Some(p);
                b.isi_prefix(p as char)
            },
            3 => {
                c2.prefix = None;
                b.isi_prefix(None)
            },
            4 => {
                let i: u16 = kani::any();
                c2.interval = Some(i);
                b.isi_interval(Duration::from_millis(i as u64))
            },
            _ => {
                c2.interval = None;
                b.isi_interval(None)
            },
        };
        let isi = b2.isi();
        check_isi(&isi, &c2, 0);
        kani::cover!(which == 3 && c.prefix.is_some(), "prefix removed again");
        core::mem::forget(isi);
        core::mem::forget(b2);
    }
}

//@ id: text_setters_frame
//@ prop: C18
//@ functions: insim/src/builder.rs Builder::isi_iname; insim/src/builder.rs Builder::isi_admin_password
//@ statement: from ANY builder state, setting or clearing the program name or the admin password (constant texts; every presence combination enumerated) replaces exactly that field of the resulting ISI and leaves every other field unchanged
//@ covers: 1
//@ timeout: 1200
#[kani::proof]
fn c18_text_setters_frame() {
    for (iname, admin) in PRESENCE {
        for which in 0..4u8 {
            let c = any_cfg(iname, admin);
            let b = build(&c);
            let mut c2 = Cfg { flags: c.flags, reqi: c.reqi, prefix: c.prefix, interval: c.interval, iname: c.iname, admin: c.admin };
            let b2 = match which {
                0 => {
                    c2.iname = false;
                    b.isi_iname(None)
                },
                1 => {
                    c2.iname = true;
                    b.isi_iname("prog".to_string())
                },
                2 => {
                    c2.admin = false;
                    b.isi_admin_password(None)
                },
                _ => {
                    c2.admin = true;
                    b.isi_admin_password("pw".to_string())
                },
            };
            let isi = b2.isi();
            check_isi(&isi, &c2, 0);
            kani::cover!(which == 0 && iname, "program name cleared again");
            core::mem::forget(isi);
            core::mem::forget(b2);
        }
    }
}
