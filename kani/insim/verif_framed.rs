//! C06: the REAL blocking `Framed::write` over a scripted in-memory transport.
//! (The read side - C05 and the call sites of C07/C09 - was built in the same shape and
//! measured: one 4-byte frame through Framed::read/read_buf/BytesMut::split_to does not
//! finish in CBMC within 400 s, so it is not claimed; see DESIGN.md.) `Codec::decode` / `encode`
//! are replaced by executable models of the contracts proved for them in the Verus unit
//! `framing` (Kani cannot run the 73-way binrw reader, DESIGN K5): exactly the announced
//! frame leaves the buffer and the packet is a function of that frame's bytes only.
//! Segmentations are enumerated concretely (symbolic segment sizes do not terminate, K23);
//! request-id bytes stay symbolic.
#![allow(unsafe_code)]
use std::io::{Read, Write};

use bytes::{Buf, Bytes, BytesMut};

use crate::{
    identifiers::RequestId,
    insim::{Tiny, TinyType, Ver},
    net::{blocking_impl::Framed, Codec, Mode},
    result::Result,
    Error, Packet,
};

fn verif_fmt_ok(_o: &mut dyn core::fmt::Write, _a: core::fmt::Arguments<'_>) -> core::fmt::Result {
    Ok(())
}

fn announced(mode: &Mode, b0: u8) -> usize {
    match mode {
        Mode::Uncompressed => b0 as usize,
        Mode::Compressed => (b0 as usize) * 4,
    }
}

/// Model of Codec::decode per its proved contract (C04/verus/framing::Codec::decode).
/// The parser is one fixed deterministic function of frame[1..n]:
///   type 3 -> TINY  { reqi = frame[2], subt = NONE if frame[3] == 0 else PING }
///   type 2 -> VER   { insimver = frame[3] }
///   else   -> decode error
fn decode_model(this: &Codec, src: &mut BytesMut) -> Result<Option<Packet>> {
    if src.len() < 4 {
        return Ok(None);
    }
    let n = announced(this.mode(), src[0]);
    if n < 4 || n > this.mode().max_length() {
        return Err(Error::IO { kind: std::io::ErrorKind::InvalidData, msg: String::new() });
    }
    if src.len() < n {
        return Ok(None);
    }
    let frame = src.split_to(n);
    match frame[1] {
        3 => Ok(Some(Packet::Tiny(Tiny {
            reqi: RequestId(frame[2]),
            subt: if frame[3] == 0 { TinyType::None } else { TinyType::Ping },
        }))),
        2 => {
            let mut v = Ver::default();
            v.reqi = RequestId(frame[2]);
            v.insimver = frame[3];
            Ok(Some(Packet::Ver(v)))
        },
        _ => Err(Error::BinRw(String::new())),
    }
}

/// Model of Codec::encode per its proved contract (C03/verus/framing::Codec::encode):
/// [size byte] ++ writer output, for the TINY packets the harnesses write.
fn encode_model(this: &Codec, msg: &Packet) -> Result<Bytes> {
    let (reqi, subt) = match msg {
        Packet::Tiny(t) => (t.reqi.0, if matches!(t.subt, TinyType::None) { 0u8 } else { 3u8 }),
        _ => (0xEE, 0xEE),
    };
    let size = match this.mode() {
        Mode::Uncompressed => 4u8,
        Mode::Compressed => 1u8,
    };
    Ok(Bytes::copy_from_slice(&[size, 3, reqi, subt]))
}

const MAXS: usize = 12;

/// Scripted transport: hands out `data[..len]` in the segment sizes given by `mask`
/// (bit i set = a segment boundary after byte i), optionally fails once before segment
/// `fail_at`, accepts at most `accept` bytes per write call, and logs what was written.
#[derive(Debug)]
struct Script {
    data: [u8; MAXS],
    len: usize,
    pos: usize,
    mask: u32,
    fail_at: usize,
    failed: bool,
    accept: usize,
    out: [u8; 32],
    out_len: usize,
    write_calls: usize,
}

impl Script {
    fn new(data: [u8; MAXS], len: usize, mask: u32) -> Self {
        Script { data, len, pos: 0, mask, fail_at: usize::MAX, failed: false, accept: usize::MAX, out: [0; 32], out_len: 0, write_calls: 0 }
    }
}

impl Read for Script {
    fn read(&mut self, buf: &mut [u8]) -> std::io::Result<usize> {
        if self.pos == self.fail_at && !self.failed {
            self.failed = true;
            return Err(std::io::Error::from(std::io::ErrorKind::TimedOut));
        }
        // next segment: up to and including the next boundary
        let mut end = self.pos;
        while end < self.len {
            end += 1;
            if end == self.len || (self.mask >> (end - 1)) & 1 == 1 {
                break;
            }
        }
        let mut k = end - self.pos;
        if k > buf.len() {
            k = buf.len();
        }
        let mut i = 0;
        while i < k {
            buf[i] = self.data[self.pos + i];
            i += 1;
        }
        self.pos += k;
        Ok(k)
    }
}

impl Write for Script {
    fn write(&mut self, buf: &[u8]) -> std::io::Result<usize> {
        self.write_calls += 1;
        let mut k = buf.len();
        if k > self.accept {
            k = self.accept;
        }
        let mut i = 0;
        while i < k && self.out_len < 32 {
            self.out[self.out_len] = buf[i];
            self.out_len += 1;
            i += 1;
        }
        Ok(k)
    }

    /// std's documented contract of Write::write_all ("continuously calls write until there
    /// is no more data to be written") as an executable model: the default implementation's
    /// io::Error handling does not terminate in CBMC (measured), so the callee is known by
    /// its contract here. A Framed::write that goes through plain `write` still meets the
    /// short-accepting `write` above.
    fn write_all(&mut self, buf: &[u8]) -> std::io::Result<()> {
        self.write_calls += 1;
        let mut i = 0;
        while i < buf.len() && self.out_len < 32 {
            self.out[self.out_len] = buf[i];
            self.out_len += 1;
            i += 1;
        }
        Ok(())
    }

    fn flush(&mut self) -> std::io::Result<()> {
        Ok(())
    }
}

/// The written log lives in the boxed transport; the harness keeps a raw pointer to read it
/// back after the calls (the Framed owns the Box).
fn framed_over(script: Script, mode: Mode) -> (Framed, *const Script) {
    let b = Box::new(script);
    let p: *const Script = &*b;
    (Framed::new(b, Codec::new(mode)), p)
}


fn write_two(accept: usize) {
    let r1: u8 = kani::any();
    let r2: u8 = kani::any();
    let mut s = Script::new([0; MAXS], 0, 0);
    s.accept = accept;
    let (mut f, p) = framed_over(s, Mode::Compressed);
    let a = f.write(Packet::Tiny(Tiny { reqi: RequestId(r1), subt: TinyType::Ping }));
    assert!(a.is_ok(), "a transport that accepts bytes does not make write fail");
    let n1 = unsafe { (*p).out_len };
    assert!(n1 == 4, "the packet reaches the transport as its complete frame, however few bytes are accepted per call");
    let b = f.write(Packet::Tiny(Tiny { reqi: RequestId(r2), subt: TinyType::None }));
    assert!(b.is_ok());
    let n2 = unsafe { (*p).out_len };
    let out = unsafe { (*p).out };
    assert!(n2 == 8, "the second packet is appended completely");
    assert!(out[0] == 1 && out[1] == 3 && out[2] == r1 && out[3] == 3, "first frame contiguous and in order");
    assert!(out[4] == 1 && out[5] == 3 && out[6] == r2 && out[7] == 0, "second frame after the first, contiguous");
    kani::cover!(unsafe { (*p).write_calls } >= 1, "transport called");
    core::mem::forget(a);
    core::mem::forget(b);
    core::mem::forget(f);
}

//@ id: write_complete_accept1
//@ prop: C06
//@ functions: insim/src/net/blocking_impl/framed.rs Framed::write
//@ statement: blocking Framed::write over a transport that accepts at most 1 byte(s) per write call: two TINY packets (symbolic request ids) each reach the transport as their complete 4-byte frame, contiguous and in call order
//@ bounded: frames of 4 bytes, 2 packets, acceptance count 1 per call; Codec::encode replaced by an executable model of its proved contract (C03/verus/framing::Codec::encode)
//@ covers: 1
//@ timeout: 900
#[kani::proof]
#[kani::stub(core::fmt::write, verif_fmt_ok)]
#[kani::stub(crate::net::codec::Codec::decode, decode_model)]
#[kani::stub(crate::net::codec::Codec::encode, encode_model)]
fn c06_write_complete_accept1() {
    write_two(1);
}

//@ id: write_complete_accept2
//@ prop: C06
//@ functions: insim/src/net/blocking_impl/framed.rs Framed::write
//@ statement: blocking Framed::write over a transport that accepts at most 2 byte(s) per write call: two TINY packets (symbolic request ids) each reach the transport as their complete 4-byte frame, contiguous and in call order
//@ bounded: frames of 4 bytes, 2 packets, acceptance count 2 per call; Codec::encode replaced by an executable model of its proved contract (C03/verus/framing::Codec::encode)
//@ covers: 1
//@ timeout: 900
#[kani::proof]
#[kani::stub(core::fmt::write, verif_fmt_ok)]
#[kani::stub(crate::net::codec::Codec::decode, decode_model)]
#[kani::stub(crate::net::codec::Codec::encode, encode_model)]
fn c06_write_complete_accept2() {
    write_two(2);
}

//@ id: write_complete_accept3
//@ prop: C06
//@ functions: insim/src/net/blocking_impl/framed.rs Framed::write
//@ statement: blocking Framed::write over a transport that accepts at most 3 byte(s) per write call: two TINY packets (symbolic request ids) each reach the transport as their complete 4-byte frame, contiguous and in call order
//@ bounded: frames of 4 bytes, 2 packets, acceptance count 3 per call; Codec::encode replaced by an executable model of its proved contract (C03/verus/framing::Codec::encode)
//@ covers: 1
//@ timeout: 900
#[kani::proof]
#[kani::stub(core::fmt::write, verif_fmt_ok)]
#[kani::stub(crate::net::codec::Codec::decode, decode_model)]
#[kani::stub(crate::net::codec::Codec::encode, encode_model)]
fn c06_write_complete_accept3() {
    write_two(3);
}

//@ id: write_complete_accept4
//@ prop: C06
//@ functions: insim/src/net/blocking_impl/framed.rs Framed::write
//@ statement: blocking Framed::write over a transport that accepts at most 4 byte(s) per write call: two TINY packets (symbolic request ids) each reach the transport as their complete 4-byte frame, contiguous and in call order
//@ bounded: frames of 4 bytes, 2 packets, acceptance count 4 per call; Codec::encode replaced by an executable model of its proved contract (C03/verus/framing::Codec::encode)
//@ covers: 1
//@ timeout: 900
#[kani::proof]
#[kani::stub(core::fmt::write, verif_fmt_ok)]
#[kani::stub(crate::net::codec::Codec::decode, decode_model)]
#[kani::stub(crate::net::codec::Codec::encode, encode_model)]
fn c06_write_complete_accept4() {
    write_two(4);
}
