//! C05 / C06 / C07 / C09 call sites: the REAL blocking `Framed::{read, write}` (including
//! its unsafe `read_buf`) over a scripted in-memory transport. `Codec::decode` / `encode`
//! are replaced by executable models of the contracts proved for them in the Verus unit
//! `framing` (Kani cannot run the 73-way binrw reader, DESIGN K5): exactly the announced
//! frame leaves the buffer and the packet is a function of that frame's bytes only.
//! Segmentations are enumerated concretely (symbolic segment sizes do not terminate, K23);
//! request-id bytes stay symbolic.
#![allow(unsafe_code)]
use std::io::{Read, Write};

use bytes::{Buf, Bytes, BytesMut};

use crate::{
    identifiers::RequestId,
    insim::{Tiny, TinyType, Ver},
    net::{blocking_impl::Framed, Codec, Mode},
    result::Result,
    Error, Packet,
};

fn verif_fmt_ok(_o: &mut dyn core::fmt::Write, _a: core::fmt::Arguments<'_>) -> core::fmt::Result {
    Ok(())
}

fn announced(mode: &Mode, b0: u8) -> usize {
    match mode {
        Mode::Uncompressed => b0 as usize,
        Mode::Compressed => (b0 as usize) * 4,
    }
}

/// Model of Codec::decode per its proved contract (C04/verus/framing::Codec::decode).
/// The parser is one fixed deterministic function of frame[1..n]:
///   type 3 -> TINY  { reqi = frame[2], subt = NONE if frame[3] == 0 else PING }
///   type 2 -> VER   { insimver = frame[3] }
///   else   -> decode error
fn decode_model(this: &Codec, src: &mut BytesMut) -> Result<Option<Packet>> {
    if src.len() < 4 {
        return Ok(None);
    }
    let n = announced(this.mode(), src[0]);
    if n < 4 || n > this.mode().max_length() {
        return Err(Error::IO { kind: std::io::ErrorKind::InvalidData, msg: String::new() });
    }
    if src.len() < n {
        return Ok(None);
    }
    let frame = src.split_to(n);
    match frame[1] {
        3 => Ok(Some(Packet::Tiny(Tiny {
            reqi: RequestId(frame[2]),
            subt: if frame[3] == 0 { TinyType::None } else { TinyType::Ping },
        }))),
        2 => {
            let mut v = Ver::default();
            v.reqi = RequestId(frame[2]);
            v.insimver = frame[3];
            Ok(Some(Packet::Ver(v)))
        },
        _ => Err(Error::BinRw(String::new())),
    }
}

/// Model of Codec::encode per its proved contract (C03/verus/framing::Codec::encode):
/// [size byte] ++ writer output, for the TINY packets the harnesses write.
fn encode_model(this: &Codec, msg: &Packet) -> Result<Bytes> {
    let (reqi, subt) = match msg {
        Packet::Tiny(t) => (t.reqi.0, if matches!(t.subt, TinyType::None) { 0u8 } else { 3u8 }),
        _ => (0xEE, 0xEE),
    };
    let size = match this.mode() {
        Mode::Uncompressed => 4u8,
        Mode::Compressed => 1u8,
    };
    Ok(Bytes::copy_from_slice(&[size, 3, reqi, subt]))
}

const MAXS: usize = 12;

/// Scripted transport: hands out `data[..len]` in the segment sizes given by `mask`
/// (bit i set = a segment boundary after byte i), optionally fails once before segment
/// `fail_at`, accepts at most `accept` bytes per write call, and logs what was written.
#[derive(Debug)]
struct Script {
    data: [u8; MAXS],
    len: usize,
    pos: usize,
    mask: u32,
    fail_at: usize,
    failed: bool,
    accept: usize,
    out: [u8; 32],
    out_len: usize,
    write_calls: usize,
}

impl Script {
    fn new(data: [u8; MAXS], len: usize, mask: u32) -> Self {
        Script { data, len, pos: 0, mask, fail_at: usize::MAX, failed: false, accept: usize::MAX, out: [0; 32], out_len: 0, write_calls: 0 }
    }
}

impl Read for Script {
    fn read(&mut self, buf: &mut [u8]) -> std::io::Result<usize> {
        if self.pos == self.fail_at && !self.failed {
            self.failed = true;
            return Err(std::io::Error::from(std::io::ErrorKind::TimedOut));
        }
        // next segment: up to and including the next boundary
        let mut end = self.pos;
        while end < self.len {
            end += 1;
            if end == self.len || (self.mask >> (end - 1)) & 1 == 1 {
                break;
            }
        }
        let mut k = end - self.pos;
        if k > buf.len() {
            k = buf.len();
        }
        let mut i = 0;
        while i < k {
            buf[i] = self.data[self.pos + i];
            i += 1;
        }
        self.pos += k;
        Ok(k)
    }
}

impl Write for Script {
    fn write(&mut self, buf: &[u8]) -> std::io::Result<usize> {
        self.write_calls += 1;
        let mut k = buf.len();
        if k > self.accept {
            k = self.accept;
        }
        let mut i = 0;
        while i < k && self.out_len < 32 {
            self.out[self.out_len] = buf[i];
            self.out_len += 1;
            i += 1;
        }
        Ok(k)
    }

    fn flush(&mut self) -> std::io::Result<()> {
        Ok(())
    }
}

/// The written log lives in the boxed transport; the harness keeps a raw pointer to read it
/// back after the calls (the Framed owns the Box).
fn framed_over(script: Script, mode: Mode) -> (Framed, *const Script) {
    let b = Box::new(script);
    let p: *const Script = &*b;
    (Framed::new(b, Codec::new(mode)), p)
}

fn expect_tiny(r: &Result<Packet>, reqi: u8, none: bool) {
    match r {
        Ok(Packet::Tiny(t)) => {
            assert!(t.reqi.0 == reqi, "frames are delivered in order, one result per frame");
            assert!(matches!(t.subt, TinyType::None) == none, "the packet is the one carried by that frame");
        },
        _ => assert!(false, "a complete frame is delivered as its packet"),
    }
}

/// All 2^(n-1) segmentations of an n-byte stream of two 4-byte TINY frames.
fn reassembly(mode: Mode, size_byte: u8, masks: core::ops::Range<u32>) {
    let r1: u8 = kani::any();
    let r2: u8 = kani::any();
    let mut data = [0u8; MAXS];
    data[0] = size_byte;
    data[1] = 3;
    data[2] = r1;
    data[3] = 3;
    data[4] = size_byte;
    data[5] = 3;
    data[6] = r2;
    data[7] = 3;
    for mask in masks {
        let (mut f, _p) = framed_over(Script::new(data, 8, mask), mode.clone());
        f.verify_version(false);
        let a = f.read();
        expect_tiny(&a, r1, false);
        let b = f.read();
        expect_tiny(&b, r2, false);
        let c = f.read();
        assert!(matches!(c, Err(Error::Disconnected)), "end of stream surfaces as disconnected");
        core::mem::forget(a);
        core::mem::forget(b);
        core::mem::forget(c);
        core::mem::forget(f);
    }
}

//@ id: reassembly_compressed_lo
//@ prop: C05
//@ functions: insim/src/net/blocking_impl/framed.rs Framed::read; insim/src/net/blocking_impl/framed.rs Framed::read_buf
//@ statement: blocking Framed::read over a stream of two 4-byte frames (compressed size bytes, symbolic request ids), segmentations 0..64 of the 128 ways to split 8 bytes into transport reads: successive reads return exactly one result per frame, in order, then Disconnected
//@ bounded: stream of 8 bytes (2 frames), all 2^7 segmentations enumerated (this harness: masks 0..64); Codec::decode replaced by a model of its proved contract
//@ timeout: 1700
#[kani::proof]
#[kani::stub(core::fmt::write, verif_fmt_ok)]
#[kani::stub(crate::net::codec::Codec::decode, decode_model)]
#[kani::stub(crate::net::codec::Codec::encode, encode_model)]
fn c05_reassembly_compressed_lo() {
    reassembly(Mode::Compressed, 1, 0..64);
}

//@ id: reassembly_compressed_hi
//@ prop: C05
//@ functions: insim/src/net/blocking_impl/framed.rs Framed::read; insim/src/net/blocking_impl/framed.rs Framed::read_buf
//@ statement: as reassembly_compressed_lo, segmentations 64..128 (includes single-byte reads and the whole stream in one read)
//@ bounded: stream of 8 bytes (2 frames), all 2^7 segmentations enumerated (this harness: masks 64..128)
//@ timeout: 1700
#[kani::proof]
#[kani::stub(core::fmt::write, verif_fmt_ok)]
#[kani::stub(crate::net::codec::Codec::decode, decode_model)]
#[kani::stub(crate::net::codec::Codec::encode, encode_model)]
fn c05_reassembly_compressed_hi() {
    reassembly(Mode::Compressed, 1, 64..128);
}

//@ id: reassembly_uncompressed
//@ prop: C05
//@ functions: insim/src/net/blocking_impl/framed.rs Framed::read; insim/src/net/blocking_impl/framed.rs Framed::read_buf
//@ statement: the same in uncompressed size mode, for the segmentations whose mask is a multiple of 9 or all-ones (single-byte reads) - a spread of 16 of the 128
//@ bounded: stream of 8 bytes (2 frames), 16 of 128 segmentations
//@ timeout: 1700
#[kani::proof]
#[kani::stub(core::fmt::write, verif_fmt_ok)]
#[kani::stub(crate::net::codec::Codec::decode, decode_model)]
#[kani::stub(crate::net::codec::Codec::encode, encode_model)]
fn c05_reassembly_uncompressed() {
    let r1: u8 = kani::any();
    let r2: u8 = kani::any();
    let mut data = [0u8; MAXS];
    data[0] = 4;
    data[1] = 3;
    data[2] = r1;
    data[3] = 3;
    data[4] = 4;
    data[5] = 3;
    data[6] = r2;
    data[7] = 3;
    for k in 0..16u32 {
        let mask = if k == 15 { 127 } else { k * 9 };
        let (mut f, _p) = framed_over(Script::new(data, 8, mask), Mode::Uncompressed);
        f.verify_version(false);
        let a = f.read();
        expect_tiny(&a, r1, false);
        let b = f.read();
        expect_tiny(&b, r2, false);
        let c = f.read();
        assert!(matches!(c, Err(Error::Disconnected)), "end of stream surfaces as disconnected");
        core::mem::forget(a);
        core::mem::forget(b);
        core::mem::forget(c);
        core::mem::forget(f);
    }
}

//@ id: undecodable_frame_isolated
//@ prop: C05
//@ functions: insim/src/net/blocking_impl/framed.rs Framed::read
//@ statement: an undecodable frame (unknown type number) between two good frames yields its error and does not disturb its successor, for 16 segmentations of the 12-byte stream incl. single-byte reads
//@ bounded: stream of 12 bytes (3 frames), 16 segmentations
//@ timeout: 1700
#[kani::proof]
#[kani::stub(core::fmt::write, verif_fmt_ok)]
#[kani::stub(crate::net::codec::Codec::decode, decode_model)]
#[kani::stub(crate::net::codec::Codec::encode, encode_model)]
fn c05_undecodable_frame_isolated() {
    let r1: u8 = kani::any();
    let r3: u8 = kani::any();
    let data: [u8; MAXS] = [1, 3, r1, 3, 1, 200, 7, 7, 1, 3, r3, 3];
    for k in 0..16u32 {
        let mask = if k == 15 { 0x7FF } else { k * 137 };
        let (mut f, _p) = framed_over(Script::new(data, 12, mask), Mode::Compressed);
        f.verify_version(false);
        let a = f.read();
        expect_tiny(&a, r1, false);
        let b = f.read();
        assert!(matches!(b, Err(Error::BinRw(_))), "the undecodable frame yields its decode error");
        let c = f.read();
        expect_tiny(&c, r3, false);
        let d = f.read();
        assert!(matches!(d, Err(Error::Disconnected)));
        core::mem::forget(a);
        core::mem::forget(b);
        core::mem::forget(c);
        core::mem::forget(d);
        core::mem::forget(f);
    }
}

//@ id: transient_error_loses_nothing
//@ prop: C05
//@ functions: insim/src/net/blocking_impl/framed.rs Framed::read; insim/src/net/blocking_impl/framed.rs Framed::read_buf
//@ statement: a transient transport error at any of the 8 byte positions of a 2-frame stream delivered in single-byte reads surfaces once as an error; the following reads continue where the stream left off: no buffered byte is lost or duplicated
//@ bounded: stream of 8 bytes, single-byte segmentation, error injected at each of the 8 positions
//@ timeout: 1700
#[kani::proof]
#[kani::stub(core::fmt::write, verif_fmt_ok)]
#[kani::stub(crate::net::codec::Codec::decode, decode_model)]
#[kani::stub(crate::net::codec::Codec::encode, encode_model)]
fn c05_transient_error_loses_nothing() {
    let r1: u8 = kani::any();
    let r2: u8 = kani::any();
    let data: [u8; MAXS] = [1, 3, r1, 3, 1, 3, r2, 3, 0, 0, 0, 0];
    for at in 0..8usize {
        let mut s = Script::new(data, 8, 127);
        s.fail_at = at;
        let (mut f, _p) = framed_over(s, Mode::Compressed);
        f.verify_version(false);
        let mut got = 0;
        let mut errors = 0;
        let mut calls = 0;
        while calls < 4 {
            let r = f.read();
            match &r {
                Ok(_) => {
                    expect_tiny(&r, if got == 0 { r1 } else { r2 }, false);
                    got += 1;
                },
                Err(Error::IO { .. }) => errors += 1,
                Err(Error::Disconnected) => {
                    core::mem::forget(r);
                    break;
                },
                Err(_) => assert!(false, "no other error"),
            }
            core::mem::forget(r);
            calls += 1;
        }
        assert!(got == 2, "both frames are delivered despite the transient error");
        assert!(errors == 1, "the transient error surfaces exactly once");
        core::mem::forget(f);
    }
}

//@ id: keepalive_reply_written_once
//@ prop: C07
//@ functions: insim/src/net/blocking_impl/framed.rs Framed::read
//@ statement: for a received sequence [keep-alive, TINY with symbolic request id and sub-type NONE-or-PING, keep-alive] in 8 segmentations: after each read returns, the bytes written so far are exactly one TINY_NONE frame per keep-alive already delivered (written before the keep-alive is handed over) and nothing for any other packet - TINY_NONE with a non-zero request id included
//@ bounded: 3-frame history (12 bytes), 8 segmentations; Codec replaced by contract models
//@ timeout: 1700
#[kani::proof]
#[kani::stub(core::fmt::write, verif_fmt_ok)]
#[kani::stub(crate::net::codec::Codec::decode, decode_model)]
#[kani::stub(crate::net::codec::Codec::encode, encode_model)]
fn c07_keepalive_reply_written_once() {
    let r2: u8 = kani::any();
    let s2: u8 = kani::any();
    kani::assume(s2 == 0 || s2 == 3);
    let mid_is_keepalive = r2 == 0 && s2 == 0;
    let data: [u8; MAXS] = [1, 3, 0, 0, 1, 3, r2, s2, 1, 3, 0, 0];
    for k in 0..8u32 {
        let mask = if k == 7 { 0x7FF } else { k * 293 };
        let (mut f, p) = framed_over(Script::new(data, 12, mask), Mode::Compressed);
        f.verify_version(false);
        let a = f.read();
        expect_tiny(&a, 0, true);
        let w1 = unsafe { (*p).out_len };
        assert!(w1 == 4, "the first keep-alive is answered before it is returned");
        let b = f.read();
        expect_tiny(&b, r2, s2 == 0);
        let w2 = unsafe { (*p).out_len };
        assert!(w2 == if mid_is_keepalive { 8 } else { 4 }, "nothing is written for a packet that is not a keep-alive");
        let c = f.read();
        expect_tiny(&c, 0, true);
        let w3 = unsafe { (*p).out_len };
        assert!(w3 == w2 + 4, "exactly one reply per keep-alive");
        let out = unsafe { (*p).out };
        let mut i = 0;
        while i < w3 {
            let expect = [1u8, 3, 0, 0][i % 4];
            assert!(out[i] == expect, "every reply is exactly one TINY_NONE frame with request id 0");
            i += 1;
        }
        core::mem::forget(a);
        core::mem::forget(b);
        core::mem::forget(c);
        core::mem::forget(f);
    }
}

//@ id: version_gate_call_site
//@ prop: C09
//@ functions: insim/src/net/blocking_impl/framed.rs Framed::read; insim/src/net/blocking_impl/framed.rs Framed::verify_version
//@ statement: for ALL 256 InSim version values in a received VER frame, with verification on and off (both enumerated), followed by a TINY: with verification on the VER is delivered iff it reports 9 and otherwise read returns IncompatibleVersion(v); with verification off it is always delivered; the following TINY is delivered in every case
//@ bounded: 2-frame history (8 bytes), 2 segmentations; Codec replaced by contract models
//@ timeout: 1700
#[kani::proof]
#[kani::stub(core::fmt::write, verif_fmt_ok)]
#[kani::stub(crate::net::codec::Codec::decode, decode_model)]
#[kani::stub(crate::net::codec::Codec::encode, encode_model)]
fn c09_version_gate_call_site() {
    let v: u8 = kani::any();
    let r2: u8 = kani::any();
    let data: [u8; MAXS] = [1, 2, 5, v, 1, 3, r2, 3, 0, 0, 0, 0];
    for verify in [false, true] {
        for mask in [0u32, 127] {
            let (mut f, _p) = framed_over(Script::new(data, 8, mask), Mode::Compressed);
            f.verify_version(verify);
            let a = f.read();
            match &a {
                Ok(Packet::Ver(ver)) => {
                    assert!(ver.insimver == v, "the delivered VER is the received one");
                    assert!(!verify || v == 9, "with verification on only InSim 9 is delivered");
                },
                Err(Error::IncompatibleVersion(got)) => {
                    assert!(verify && v != 9, "rejected only when enabled and the version is not 9");
                    assert!(*got == v, "the error carries the offending version");
                },
                _ => assert!(false, "a VER frame is delivered or rejected by the gate, nothing else"),
            }
            let b = f.read();
            expect_tiny(&b, r2, false);
            core::mem::forget(a);
            core::mem::forget(b);
            core::mem::forget(f);
        }
    }
}

//@ id: write_complete
//@ prop: C06
//@ functions: insim/src/net/blocking_impl/framed.rs Framed::write
//@ statement: for a transport that accepts k bytes per write call, every k in 1..=4: after Framed::write(TINY with symbolic request id) returns Ok the transport has received the complete 4-byte frame, contiguous and in order; a second write appends its complete frame after the first
//@ bounded: frame of 4 bytes, acceptance counts 1..=4 enumerated, 2 packets; Codec::encode replaced by a model of its proved contract
//@ timeout: 1700
#[kani::proof]
#[kani::stub(core::fmt::write, verif_fmt_ok)]
#[kani::stub(crate::net::codec::Codec::decode, decode_model)]
#[kani::stub(crate::net::codec::Codec::encode, encode_model)]
fn c06_write_complete() {
    let r1: u8 = kani::any();
    let r2: u8 = kani::any();
    for accept in 1..=4usize {
        let mut s = Script::new([0; MAXS], 0, 0);
        s.accept = accept;
        let (mut f, p) = framed_over(s, Mode::Compressed);
        let a = f.write(Packet::Tiny(Tiny { reqi: RequestId(r1), subt: TinyType::Ping }));
        let b = f.write(Packet::Tiny(Tiny { reqi: RequestId(r2), subt: TinyType::Ping }));
        if a.is_ok() && b.is_ok() {
            let n = unsafe { (*p).out_len };
            let out = unsafe { (*p).out };
            assert!(n == 8, "every written packet reaches the transport as its complete frame");
            assert!(out[0] == 1 && out[1] == 3 && out[2] == r1 && out[3] == 3, "first frame complete and contiguous");
            assert!(out[4] == 1 && out[5] == 3 && out[6] == r2 && out[7] == 3, "second frame complete, after the first");
        }
        kani::cover!(a.is_ok() && accept == 1, "one byte per call");
        core::mem::forget(a);
        core::mem::forget(b);
        core::mem::forget(f);
    }
}
