//! C06: the REAL blocking `Framed::write` over a scripted in-memory transport, and the
//! single-frame obligations of C05 / C07 / C09 on the REAL blocking `Framed::read` (incl. its
//! unsafe `read_buf`). One received frame per harness is the measured limit (DESIGN K31:
//! one read with a packet costs 200-450 s of CBMC, a second frame does not finish). `Codec::decode` / `encode`
//! are replaced by executable models of the contracts proved for them in the Verus unit
//! `framing` (Kani cannot run the 73-way binrw reader, DESIGN K5): exactly the announced
//! frame leaves the buffer and the packet is a function of that frame's bytes only.
//! Segmentations are enumerated concretely (symbolic segment sizes do not terminate, K23);
//! request-id bytes stay symbolic.
#![allow(unsafe_code)]
use std::io::{Read, Write};

use bytes::{Buf, Bytes, BytesMut};

use crate::{
    identifiers::RequestId,
    insim::{Tiny, TinyType, Ver},
    net::{blocking_impl::Framed, Codec, Mode},
    result::Result,
    Error, Packet,
};

fn verif_fmt_ok(_o: &mut dyn core::fmt::Write, _a: core::fmt::Arguments<'_>) -> core::fmt::Result {
    Ok(())
}

fn announced(mode: &Mode, b0: u8) -> usize {
    match mode {
        Mode::Uncompressed => b0 as usize,
        Mode::Compressed => (b0 as usize) * 4,
    }
}

/// Model of Codec::decode per its proved contract (C04/verus/framing::Codec::decode).
/// The parser is one fixed deterministic function of frame[1..n]:
///   type 3 -> TINY  { reqi = frame[2], subt = NONE if frame[3] == 0 else PING }
///   type 2 -> VER   { insimver = frame[3] }
///   else   -> decode error
fn decode_model(this: &Codec, src: &mut BytesMut) -> Result<Option<Packet>> {
    if src.len() < 4 {
        return Ok(None);
    }
    let n = announced(this.mode(), src[0]);
    if n < 4 || n > this.mode().max_length() {
        return Err(Error::IO { kind: std::io::ErrorKind::InvalidData, msg: String::new() });
    }
    if src.len() < n {
        return Ok(None);
    }
    let frame = src.split_to(n);
    match frame[1] {
        3 => Ok(Some(Packet::Tiny(Tiny {
            reqi: RequestId(frame[2]),
            subt: if frame[3] == 0 { TinyType::None } else { TinyType::Ping },
        }))),
        2 => {
            let mut v = Ver::default();
            v.reqi = RequestId(frame[2]);
            v.insimver = frame[3];
            Ok(Some(Packet::Ver(v)))
        },
        _ => Err(Error::BinRw(String::new())),
    }
}

/// Model of Codec::encode per its proved contract (C03/verus/framing::Codec::encode):
/// [size byte] ++ writer output, for the TINY packets the harnesses write.
fn encode_model(this: &Codec, msg: &Packet) -> Result<Bytes> {
    let (reqi, subt) = match msg {
        Packet::Tiny(t) => (t.reqi.0, if matches!(t.subt, TinyType::None) { 0u8 } else { 3u8 }),
        _ => (0xEE, 0xEE),
    };
    let size = match this.mode() {
        Mode::Uncompressed => 4u8,
        Mode::Compressed => 1u8,
    };
    Ok(Bytes::copy_from_slice(&[size, 3, reqi, subt]))
}

const MAXS: usize = 12;

// Scripted transport. All of its state lives in statics and the boxed value is a unit struct:
// a struct with array fields moved behind `Box<dyn ReadWrite>` makes every field access a
// byte-extract over a heap object and CBMC does not finish (measured: a single dyn `read`
// call timed out; with statics it takes about a second).
static mut S_DATA: [u8; MAXS] = [0; MAXS];
static mut S_LEN: usize = 0;
static mut S_POS: usize = 0;
static mut S_MASK: u32 = 0;
static mut S_FAIL_AT: usize = usize::MAX;
static mut S_FAILED: bool = false;
static mut S_ACCEPT: usize = usize::MAX;
static mut S_OUT: [u8; 32] = [0; 32];
static mut S_OUT_LEN: usize = 0;
static mut S_WRITE_CALLS: usize = 0;

/// Hands out `S_DATA[..S_LEN]` in the segment sizes given by `S_MASK` (bit i set = a segment
/// boundary after byte i), optionally fails once before byte `S_FAIL_AT`, accepts at most
/// `S_ACCEPT` bytes per `write` call, and logs what was written.
#[derive(Debug)]
struct Script;

fn script_reset(data: [u8; MAXS], len: usize, mask: u32) {
    unsafe {
        S_DATA = data;
        S_LEN = len;
        S_POS = 0;
        S_MASK = mask;
        S_FAIL_AT = usize::MAX;
        S_FAILED = false;
        S_ACCEPT = usize::MAX;
        S_OUT = [0; 32];
        S_OUT_LEN = 0;
        S_WRITE_CALLS = 0;
    }
}

impl Read for Script {
    fn read(&mut self, buf: &mut [u8]) -> std::io::Result<usize> {
        unsafe {
            if S_POS == S_FAIL_AT && !S_FAILED {
                S_FAILED = true;
                return Err(std::io::Error::from(std::io::ErrorKind::TimedOut));
            }
            // next segment: up to and including the next boundary
            let mut end = S_POS;
            while end < S_LEN && end < MAXS {
                end += 1;
                if end == S_LEN || (S_MASK >> (end - 1)) & 1 == 1 {
                    break;
                }
            }
            let mut k = end - S_POS;
            if k > buf.len() {
                k = buf.len();
            }
            let mut i = 0;
            while i < k && i < MAXS {
                buf[i] = S_DATA[S_POS + i];
                i += 1;
            }
            S_POS += k;
            Ok(k)
        }
    }
}

impl Write for Script {
    fn write(&mut self, buf: &[u8]) -> std::io::Result<usize> {
        unsafe {
            S_WRITE_CALLS += 1;
            let mut k = buf.len();
            if k > S_ACCEPT {
                k = S_ACCEPT;
            }
            let mut i = 0;
            while i < k && S_OUT_LEN < 32 {
                S_OUT[S_OUT_LEN] = buf[i];
                S_OUT_LEN += 1;
                i += 1;
            }
            Ok(k)
        }
    }

    /// std's documented contract of Write::write_all ("continuously calls write until there
    /// is no more data to be written") as an executable model: the default implementation's
    /// io::Error handling does not terminate in CBMC (measured), so the callee is known by
    /// its contract here. A Framed::write that goes through plain `write` still meets the
    /// short-accepting `write` above.
    fn write_all(&mut self, buf: &[u8]) -> std::io::Result<()> {
        unsafe {
            S_WRITE_CALLS += 1;
            let mut i = 0;
            while i < buf.len() && S_OUT_LEN < 32 {
                S_OUT[S_OUT_LEN] = buf[i];
                S_OUT_LEN += 1;
                i += 1;
            }
            Ok(())
        }
    }

    fn flush(&mut self) -> std::io::Result<()> {
        Ok(())
    }
}

fn framed(mode: Mode) -> Framed {
    Framed::new(Box::new(Script), Codec::new(mode))
}

fn out_len() -> usize {
    unsafe { S_OUT_LEN }
}

fn out_byte(i: usize) -> u8 {
    unsafe { S_OUT[i] }
}

fn expect_tiny(r: &Result<Packet>, reqi: u8, none: bool) {
    match r {
        Ok(Packet::Tiny(t)) => {
            assert!(t.reqi.0 == reqi, "frames are delivered in order, one result per frame");
            assert!(matches!(t.subt, TinyType::None) == none, "the packet is the one carried by that frame");
        },
        _ => assert!(false, "a complete frame is delivered as its packet"),
    }
}

fn write_two(accept: usize) {
    let r1: u8 = kani::any();
    let r2: u8 = kani::any();
    script_reset([0; MAXS], 0, 0);
    unsafe {
        S_ACCEPT = accept;
    }
    let mut f = framed(Mode::Compressed);
    let a = f.write(Packet::Tiny(Tiny { reqi: RequestId(r1), subt: TinyType::Ping }));
    assert!(a.is_ok(), "a transport that accepts bytes does not make write fail");
    assert!(out_len() == 4, "the packet reaches the transport as its complete frame, however few bytes are accepted per call");
    let b = f.write(Packet::Tiny(Tiny { reqi: RequestId(r2), subt: TinyType::None }));
    assert!(b.is_ok());
    assert!(out_len() == 8, "the second packet is appended completely");
    assert!(out_byte(0) == 1 && out_byte(1) == 3 && out_byte(2) == r1 && out_byte(3) == 3, "first frame contiguous and in order");
    assert!(out_byte(4) == 1 && out_byte(5) == 3 && out_byte(6) == r2 && out_byte(7) == 0, "second frame after the first, contiguous");
    kani::cover!(unsafe { S_WRITE_CALLS } >= 1, "transport called");
    core::mem::forget(a);
    core::mem::forget(b);
    core::mem::forget(f);
}

//@ id: write_complete_accept1
//@ prop: C06
//@ functions: insim/src/net/blocking_impl/framed.rs Framed::write
//@ statement: blocking Framed::write over a transport that accepts at most 1 byte(s) per write call: two TINY packets (symbolic request ids) each reach the transport as their complete 4-byte frame, contiguous and in call order
//@ bounded: frames of 4 bytes, 2 packets, acceptance count 1 per call; Codec::encode replaced by an executable model of its proved contract (C03/verus/framing::Codec::encode)
//@ covers: 1
//@ timeout: 900
#[kani::proof]
#[kani::stub(core::fmt::write, verif_fmt_ok)]
#[kani::stub(crate::net::codec::Codec::decode, decode_model)]
#[kani::stub(crate::net::codec::Codec::encode, encode_model)]
fn c06_write_complete_accept1() {
    write_two(1);
}

//@ id: write_complete_accept2
//@ prop: C06
//@ functions: insim/src/net/blocking_impl/framed.rs Framed::write
//@ statement: blocking Framed::write over a transport that accepts at most 2 byte(s) per write call: two TINY packets (symbolic request ids) each reach the transport as their complete 4-byte frame, contiguous and in call order
//@ bounded: frames of 4 bytes, 2 packets, acceptance count 2 per call; Codec::encode replaced by an executable model of its proved contract (C03/verus/framing::Codec::encode)
//@ covers: 1
//@ timeout: 900
#[kani::proof]
#[kani::stub(core::fmt::write, verif_fmt_ok)]
#[kani::stub(crate::net::codec::Codec::decode, decode_model)]
#[kani::stub(crate::net::codec::Codec::encode, encode_model)]
fn c06_write_complete_accept2() {
    write_two(2);
}

//@ id: write_complete_accept3
//@ prop: C06
//@ functions: insim/src/net/blocking_impl/framed.rs Framed::write
//@ statement: blocking Framed::write over a transport that accepts at most 3 byte(s) per write call: two TINY packets (symbolic request ids) each reach the transport as their complete 4-byte frame, contiguous and in call order
//@ bounded: frames of 4 bytes, 2 packets, acceptance count 3 per call; Codec::encode replaced by an executable model of its proved contract (C03/verus/framing::Codec::encode)
//@ covers: 1
//@ timeout: 900
#[kani::proof]
#[kani::stub(core::fmt::write, verif_fmt_ok)]
#[kani::stub(crate::net::codec::Codec::decode, decode_model)]
#[kani::stub(crate::net::codec::Codec::encode, encode_model)]
fn c06_write_complete_accept3() {
    write_two(3);
}

//@ id: write_complete_accept4
//@ prop: C06
//@ functions: insim/src/net/blocking_impl/framed.rs Framed::write
//@ statement: blocking Framed::write over a transport that accepts at most 4 byte(s) per write call: two TINY packets (symbolic request ids) each reach the transport as their complete 4-byte frame, contiguous and in call order
//@ bounded: frames of 4 bytes, 2 packets, acceptance count 4 per call; Codec::encode replaced by an executable model of its proved contract (C03/verus/framing::Codec::encode)
//@ covers: 1
//@ timeout: 900
#[kani::proof]
#[kani::stub(core::fmt::write, verif_fmt_ok)]
#[kani::stub(crate::net::codec::Codec::decode, decode_model)]
#[kani::stub(crate::net::codec::Codec::encode, encode_model)]
fn c06_write_complete_accept4() {
    write_two(4);
}


// ------------------------------------------------------------------ read side (one frame)

/// Model of Codec::decode per its proved contract, parser = "every frame is a TINY with
/// request id frame[2] and sub-type NONE iff frame[3] == 0".
fn decode_tiny_only(this: &Codec, src: &mut BytesMut) -> Result<Option<Packet>> {
    if src.len() < 4 {
        return Ok(None);
    }
    let n = announced(this.mode(), src[0]);
    if n < 4 || n > this.mode().max_length() {
        return Err(Error::Disconnected);
    }
    if src.len() < n {
        return Ok(None);
    }
    let frame = src.split_to(n);
    Ok(Some(Packet::Tiny(Tiny {
        reqi: RequestId(frame[2]),
        subt: if frame[3] == 0 { TinyType::None } else { TinyType::Ping },
    })))
}

/// Model of Codec::decode per its proved contract, parser = "every frame is a VER with
/// request id frame[2] and InSim version frame[3]".
fn decode_ver_only(this: &Codec, src: &mut BytesMut) -> Result<Option<Packet>> {
    if src.len() < 4 {
        return Ok(None);
    }
    let n = announced(this.mode(), src[0]);
    if n < 4 || n > this.mode().max_length() {
        return Err(Error::Disconnected);
    }
    if src.len() < n {
        return Ok(None);
    }
    let frame = src.split_to(n);
    let mut v = Ver::default();
    v.reqi = RequestId(frame[2]);
    v.insimver = frame[3];
    Ok(Some(Packet::Ver(v)))
}

fn one_frame(mask: u32) {
    let r1: u8 = kani::any();
    let data: [u8; MAXS] = [1, 3, r1, 3, 0, 0, 0, 0, 0, 0, 0, 0];
    script_reset(data, 4, mask);
    let mut f = framed(Mode::Compressed);
    f.verify_version(false);
    let a = f.read();
    expect_tiny(&a, r1, false);
    assert!(out_len() == 0, "nothing is written for a packet that is not a keep-alive");
    core::mem::forget(a);
    core::mem::forget(f);
}

//@ id: one_frame_segmentation_0
//@ prop: C05
//@ functions: insim/src/net/blocking_impl/framed.rs Framed::read; insim/src/net/blocking_impl/framed.rs Framed::read_buf
//@ statement: blocking Framed::read over a transport that delivers one 4-byte frame (symbolic request id) in reads of [4] byte(s): read returns exactly that frame's packet and writes nothing
//@ bounded: ONE frame of 4 bytes, segmentation [4] (the 8 harnesses enumerate all 2^3 segmentations); Codec::decode replaced by an executable model of its proved contract; a second frame does not finish in CBMC (K31)
//@ timeout: 1500
#[kani::proof]
#[kani::unwind(14)]
#[kani::stub(core::fmt::write, verif_fmt_ok)]
#[kani::stub(crate::net::codec::Codec::decode, decode_tiny_only)]
#[kani::stub(crate::net::codec::Codec::encode, encode_model)]
fn c05_one_frame_segmentation_0() {
    one_frame(0);
}

//@ id: one_frame_segmentation_1
//@ prop: C05
//@ functions: insim/src/net/blocking_impl/framed.rs Framed::read; insim/src/net/blocking_impl/framed.rs Framed::read_buf
//@ statement: blocking Framed::read over a transport that delivers one 4-byte frame (symbolic request id) in reads of [1, 3] byte(s): read returns exactly that frame's packet and writes nothing
//@ bounded: ONE frame of 4 bytes, segmentation [1, 3] (the 8 harnesses enumerate all 2^3 segmentations); Codec::decode replaced by an executable model of its proved contract; a second frame does not finish in CBMC (K31)
//@ timeout: 1500
#[kani::proof]
#[kani::unwind(14)]
#[kani::stub(core::fmt::write, verif_fmt_ok)]
#[kani::stub(crate::net::codec::Codec::decode, decode_tiny_only)]
#[kani::stub(crate::net::codec::Codec::encode, encode_model)]
fn c05_one_frame_segmentation_1() {
    one_frame(1);
}

//@ id: one_frame_segmentation_2
//@ prop: C05
//@ functions: insim/src/net/blocking_impl/framed.rs Framed::read; insim/src/net/blocking_impl/framed.rs Framed::read_buf
//@ statement: blocking Framed::read over a transport that delivers one 4-byte frame (symbolic request id) in reads of [2, 2] byte(s): read returns exactly that frame's packet and writes nothing
//@ bounded: ONE frame of 4 bytes, segmentation [2, 2] (the 8 harnesses enumerate all 2^3 segmentations); Codec::decode replaced by an executable model of its proved contract; a second frame does not finish in CBMC (K31)
//@ timeout: 1500
#[kani::proof]
#[kani::unwind(14)]
#[kani::stub(core::fmt::write, verif_fmt_ok)]
#[kani::stub(crate::net::codec::Codec::decode, decode_tiny_only)]
#[kani::stub(crate::net::codec::Codec::encode, encode_model)]
fn c05_one_frame_segmentation_2() {
    one_frame(2);
}

//@ id: one_frame_segmentation_3
//@ prop: C05
//@ functions: insim/src/net/blocking_impl/framed.rs Framed::read; insim/src/net/blocking_impl/framed.rs Framed::read_buf
//@ statement: blocking Framed::read over a transport that delivers one 4-byte frame (symbolic request id) in reads of [1, 1, 2] byte(s): read returns exactly that frame's packet and writes nothing
//@ bounded: ONE frame of 4 bytes, segmentation [1, 1, 2] (the 8 harnesses enumerate all 2^3 segmentations); Codec::decode replaced by an executable model of its proved contract; a second frame does not finish in CBMC (K31)
//@ timeout: 1500
#[kani::proof]
#[kani::unwind(14)]
#[kani::stub(core::fmt::write, verif_fmt_ok)]
#[kani::stub(crate::net::codec::Codec::decode, decode_tiny_only)]
#[kani::stub(crate::net::codec::Codec::encode, encode_model)]
fn c05_one_frame_segmentation_3() {
    one_frame(3);
}

//@ id: one_frame_segmentation_4
//@ prop: C05
//@ functions: insim/src/net/blocking_impl/framed.rs Framed::read; insim/src/net/blocking_impl/framed.rs Framed::read_buf
//@ statement: blocking Framed::read over a transport that delivers one 4-byte frame (symbolic request id) in reads of [3, 1] byte(s): read returns exactly that frame's packet and writes nothing
//@ bounded: ONE frame of 4 bytes, segmentation [3, 1] (the 8 harnesses enumerate all 2^3 segmentations); Codec::decode replaced by an executable model of its proved contract; a second frame does not finish in CBMC (K31)
//@ timeout: 1500
#[kani::proof]
#[kani::unwind(14)]
#[kani::stub(core::fmt::write, verif_fmt_ok)]
#[kani::stub(crate::net::codec::Codec::decode, decode_tiny_only)]
#[kani::stub(crate::net::codec::Codec::encode, encode_model)]
fn c05_one_frame_segmentation_4() {
    one_frame(4);
}

//@ id: one_frame_segmentation_5
//@ prop: C05
//@ functions: insim/src/net/blocking_impl/framed.rs Framed::read; insim/src/net/blocking_impl/framed.rs Framed::read_buf
//@ statement: blocking Framed::read over a transport that delivers one 4-byte frame (symbolic request id) in reads of [1, 2, 1] byte(s): read returns exactly that frame's packet and writes nothing
//@ bounded: ONE frame of 4 bytes, segmentation [1, 2, 1] (the 8 harnesses enumerate all 2^3 segmentations); Codec::decode replaced by an executable model of its proved contract; a second frame does not finish in CBMC (K31)
//@ timeout: 1500
#[kani::proof]
#[kani::unwind(14)]
#[kani::stub(core::fmt::write, verif_fmt_ok)]
#[kani::stub(crate::net::codec::Codec::decode, decode_tiny_only)]
#[kani::stub(crate::net::codec::Codec::encode, encode_model)]
fn c05_one_frame_segmentation_5() {
    one_frame(5);
}

//@ id: one_frame_segmentation_6
//@ prop: C05
//@ functions: insim/src/net/blocking_impl/framed.rs Framed::read; insim/src/net/blocking_impl/framed.rs Framed::read_buf
//@ statement: blocking Framed::read over a transport that delivers one 4-byte frame (symbolic request id) in reads of [2, 1, 1] byte(s): read returns exactly that frame's packet and writes nothing
//@ bounded: ONE frame of 4 bytes, segmentation [2, 1, 1] (the 8 harnesses enumerate all 2^3 segmentations); Codec::decode replaced by an executable model of its proved contract; a second frame does not finish in CBMC (K31)
//@ timeout: 1500
#[kani::proof]
#[kani::unwind(14)]
#[kani::stub(core::fmt::write, verif_fmt_ok)]
#[kani::stub(crate::net::codec::Codec::decode, decode_tiny_only)]
#[kani::stub(crate::net::codec::Codec::encode, encode_model)]
fn c05_one_frame_segmentation_6() {
    one_frame(6);
}

//@ id: one_frame_segmentation_7
//@ prop: C05
//@ functions: insim/src/net/blocking_impl/framed.rs Framed::read; insim/src/net/blocking_impl/framed.rs Framed::read_buf
//@ statement: blocking Framed::read over a transport that delivers one 4-byte frame (symbolic request id) in reads of [1, 1, 1, 1] byte(s): read returns exactly that frame's packet and writes nothing
//@ bounded: ONE frame of 4 bytes, segmentation [1, 1, 1, 1] (the 8 harnesses enumerate all 2^3 segmentations); Codec::decode replaced by an executable model of its proved contract; a second frame does not finish in CBMC (K31)
//@ timeout: 1500
#[kani::proof]
#[kani::unwind(14)]
#[kani::stub(core::fmt::write, verif_fmt_ok)]
#[kani::stub(crate::net::codec::Codec::decode, decode_tiny_only)]
#[kani::stub(crate::net::codec::Codec::encode, encode_model)]
fn c05_one_frame_segmentation_7() {
    one_frame(7);
}

//@ id: keepalive_call_site_one_frame
//@ prop: C07
//@ functions: insim/src/net/blocking_impl/framed.rs Framed::read
//@ statement: blocking Framed::read receiving one TINY frame with ANY request id and sub-type NONE or PING: when read returns the packet, the transport has received exactly one TINY_NONE frame with request id 0 iff the packet is a keep-alive (sub-type NONE, request id 0) - written before the keep-alive is handed to the caller - and nothing otherwise
//@ bounded: ONE received frame (no history), compressed mode; Codec::{decode,encode} replaced by executable models of their proved contracts
//@ timeout: 1500
#[kani::proof]
#[kani::unwind(14)]
#[kani::stub(core::fmt::write, verif_fmt_ok)]
#[kani::stub(crate::net::codec::Codec::decode, decode_tiny_only)]
#[kani::stub(crate::net::codec::Codec::encode, encode_model)]
fn c07_keepalive_call_site_one_frame() {
    let r1: u8 = kani::any();
    let s1: u8 = kani::any();
    kani::assume(s1 == 0 || s1 == 3);
    let data: [u8; MAXS] = [1, 3, r1, s1, 0, 0, 0, 0, 0, 0, 0, 0];
    script_reset(data, 4, 0);
    let mut f = framed(Mode::Compressed);
    f.verify_version(false);
    let a = f.read();
    expect_tiny(&a, r1, s1 == 0);
    if r1 == 0 && s1 == 0 {
        assert!(out_len() == 4, "the keep-alive is answered before it is returned, exactly once");
        assert!(out_byte(0) == 1 && out_byte(1) == 3 && out_byte(2) == 0 && out_byte(3) == 0, "the reply is one TINY_NONE frame with request id 0");
    } else {
        assert!(out_len() == 0, "nothing is written in response to any other packet");
    }
    core::mem::forget(a);
    core::mem::forget(f);
}

//@ id: version_gate_call_site_one_frame
//@ prop: C09
//@ functions: insim/src/net/blocking_impl/framed.rs Framed::read; insim/src/net/blocking_impl/framed.rs Framed::verify_version
//@ statement: blocking Framed::read receiving one VER frame with ANY of the 256 InSim versions, verification on or off (symbolic): with verification on the packet is delivered iff it reports 9 and otherwise read returns IncompatibleVersion(v) carrying v; with verification off it is always delivered; nothing is written
//@ bounded: ONE received frame (no history), compressed mode; Codec::{decode,encode} replaced by executable models of their proved contracts
//@ timeout: 1500
#[kani::proof]
#[kani::unwind(14)]
#[kani::stub(core::fmt::write, verif_fmt_ok)]
#[kani::stub(crate::net::codec::Codec::decode, decode_ver_only)]
#[kani::stub(crate::net::codec::Codec::encode, encode_model)]
fn c09_version_gate_call_site_one_frame() {
    let v: u8 = kani::any();
    let verify: bool = kani::any();
    let data: [u8; MAXS] = [1, 2, 5, v, 0, 0, 0, 0, 0, 0, 0, 0];
    script_reset(data, 4, 0);
    let mut f = framed(Mode::Compressed);
    f.verify_version(verify);
    let a = f.read();
    match &a {
        Ok(Packet::Ver(ver)) => {
            assert!(ver.insimver == v, "the delivered VER is the received one");
            assert!(!verify || v == 9, "with verification on only InSim 9 is delivered");
        },
        Err(Error::IncompatibleVersion(got)) => {
            assert!(verify && v != 9, "rejected only when enabled and the version is not 9");
            assert!(*got == v, "the error carries the offending version");
        },
        _ => assert!(false, "a VER frame is delivered or rejected by the gate, nothing else"),
    }
    assert!(out_len() == 0, "nothing is written for a VER packet");
    core::mem::forget(a);
    core::mem::forget(f);
}
