//! C06: the REAL blocking `Framed::write` over a scripted in-memory transport.
//! (The read side - C05 and the call sites of C07/C09 - was built in the same shape and
//! measured: one 4-byte frame through Framed::read/read_buf/BytesMut::split_to does not
//! finish in CBMC within 400 s, so it is not claimed; see DESIGN.md.) `Codec::decode` / `encode`
//! are replaced by executable models of the contracts proved for them in the Verus unit
//! `framing` (Kani cannot run the 73-way binrw reader, DESIGN K5): exactly the announced
//! frame leaves the buffer and the packet is a function of that frame's bytes only.
//! Segmentations are enumerated concretely (symbolic segment sizes do not terminate, K23);
//! request-id bytes stay symbolic.
#![allow(unsafe_code)]
use std::io::{Read, Write};

use bytes::{Buf, Bytes, BytesMut};

use crate::{
    identifiers::RequestId,
    insim::{Tiny, TinyType, Ver},
    net::{blocking_impl::Framed, Codec, Mode},
    result::Result,
    Error, Packet,
};

fn verif_fmt_ok(_o: &mut dyn core::fmt::Write, _a: core::fmt::Arguments<'_>) -> core::fmt::Result {
    Ok(())
}

fn announced(mode: &Mode, b0: u8) -> usize {
    match mode {
        Mode::Uncompressed => b0 as usize,
        Mode::Compressed => (b0 as usize) * 4,
    }
}

/// Model of Codec::decode per its proved contract (C04/verus/framing::Codec::decode).
/// The parser is one fixed deterministic function of frame[1..n]:
///   type 3 -> TINY  { reqi = frame[2], subt = NONE if frame[3] == 0 else PING }
///   type 2 -> VER   { insimver = frame[3] }
///   else   -> decode error
fn decode_model(this: &Codec, src: &mut BytesMut) -> Result<Option<Packet>> {
    if src.len() < 4 {
        return Ok(None);
    }
    let n = announced(this.mode(), src[0]);
    if n < 4 || n > this.mode().max_length() {
        return Err(Error::IO { kind: std::io::ErrorKind::InvalidData, msg: String::new() });
    }
    if src.len() < n {
        return Ok(None);
    }
    let frame = src.split_to(n);
    match frame[1] {
        3 => Ok(Some(Packet::Tiny(Tiny {
            reqi: RequestId(frame[2]),
            subt: if frame[3] == 0 { TinyType::None } else { TinyType::Ping },
        }))),
        2 => {
            let mut v = Ver::default();
            v.reqi = RequestId(frame[2]);
            v.insimver = frame[3];
            Ok(Some(Packet::Ver(v)))
        },
        _ => Err(Error::BinRw(String::new())),
    }
}

/// Model of Codec::encode per its proved contract (C03/verus/framing::Codec::encode):
/// [size byte] ++ writer output, for the TINY packets the harnesses write.
fn encode_model(this: &Codec, msg: &Packet) -> Result<Bytes> {
    let (reqi, subt) = match msg {
        Packet::Tiny(t) => (t.reqi.0, if matches!(t.subt, TinyType::None) { 0u8 } else { 3u8 }),
        _ => (0xEE, 0xEE),
    };
    let size = match this.mode() {
        Mode::Uncompressed => 4u8,
        Mode::Compressed => 1u8,
    };
    Ok(Bytes::copy_from_slice(&[size, 3, reqi, subt]))
}

const MAXS: usize = 12;

// Scripted transport. All of its state lives in statics and the boxed value is a unit struct:
// a struct with array fields moved behind `Box<dyn ReadWrite>` makes every field access a
// byte-extract over a heap object and CBMC does not finish (measured: a single dyn `read`
// call timed out; with statics it takes about a second).
static mut S_DATA: [u8; MAXS] = [0; MAXS];
static mut S_LEN: usize = 0;
static mut S_POS: usize = 0;
static mut S_MASK: u32 = 0;
static mut S_FAIL_AT: usize = usize::MAX;
static mut S_FAILED: bool = false;
static mut S_ACCEPT: usize = usize::MAX;
static mut S_OUT: [u8; 32] = [0; 32];
static mut S_OUT_LEN: usize = 0;
static mut S_WRITE_CALLS: usize = 0;

/// Hands out `S_DATA[..S_LEN]` in the segment sizes given by `S_MASK` (bit i set = a segment
/// boundary after byte i), optionally fails once before byte `S_FAIL_AT`, accepts at most
/// `S_ACCEPT` bytes per `write` call, and logs what was written.
#[derive(Debug)]
struct Script;

fn script_reset(data: [u8; MAXS], len: usize, mask: u32) {
    unsafe {
        S_DATA = data;
        S_LEN = len;
        S_POS = 0;
        S_MASK = mask;
        S_FAIL_AT = usize::MAX;
        S_FAILED = false;
        S_ACCEPT = usize::MAX;
        S_OUT = [0; 32];
        S_OUT_LEN = 0;
        S_WRITE_CALLS = 0;
    }
}

impl Read for Script {
    fn read(&mut self, buf: &mut [u8]) -> std::io::Result<usize> {
        unsafe {
            if S_POS == S_FAIL_AT && !S_FAILED {
                S_FAILED = true;
                return Err(std::io::Error::from(std::io::ErrorKind::TimedOut));
            }
            // next segment: up to and including the next boundary
            let mut end = S_POS;
            while end < S_LEN && end < MAXS {
                end += 1;
                if end == S_LEN || (S_MASK >> (end - 1)) & 1 == 1 {
                    break;
                }
            }
            let mut k = end - S_POS;
            if k > buf.len() {
                k = buf.len();
            }
            let mut i = 0;
            while i < k && i < MAXS {
                buf[i] = S_DATA[S_POS + i];
                i += 1;
            }
            S_POS += k;
            Ok(k)
        }
    }
}

impl Write for Script {
    fn write(&mut self, buf: &[u8]) -> std::io::Result<usize> {
        unsafe {
            S_WRITE_CALLS += 1;
            let mut k = buf.len();
            if k > S_ACCEPT {
                k = S_ACCEPT;
            }
            let mut i = 0;
            while i < k && S_OUT_LEN < 32 {
                S_OUT[S_OUT_LEN] = buf[i];
                S_OUT_LEN += 1;
                i += 1;
            }
            Ok(k)
        }
    }

    /// std's documented contract of Write::write_all ("continuously calls write until there
    /// is no more data to be written") as an executable model: the default implementation's
    /// io::Error handling does not terminate in CBMC (measured), so the callee is known by
    /// its contract here. A Framed::write that goes through plain `write` still meets the
    /// short-accepting `write` above.
    fn write_all(&mut self, buf: &[u8]) -> std::io::Result<()> {
        unsafe {
            S_WRITE_CALLS += 1;
            let mut i = 0;
            while i < buf.len() && S_OUT_LEN < 32 {
                S_OUT[S_OUT_LEN] = buf[i];
                S_OUT_LEN += 1;
                i += 1;
            }
            Ok(())
        }
    }

    fn flush(&mut self) -> std::io::Result<()> {
        Ok(())
    }
}

fn framed(mode: Mode) -> Framed {
    Framed::new(Box::new(Script), Codec::new(mode))
}

fn out_len() -> usize {
    unsafe { S_OUT_LEN }
}

fn out_byte(i: usize) -> u8 {
    unsafe { S_OUT[i] }
}

fn expect_tiny(r: &Result<Packet>, reqi: u8, none: bool) {
    match r {
        Ok(Packet::Tiny(t)) => {
            assert!(t.reqi.0 == reqi, "frames are delivered in order, one result per frame");
            assert!(matches!(t.subt, TinyType::None) == none, "the packet is the one carried by that frame");
        },
        _ => assert!(false, "a complete frame is delivered as its packet"),
    }
}

fn write_two(accept: usize) {
    let r1: u8 = kani::any();
    let r2: u8 = kani::any();
    script_reset([0; MAXS], 0, 0);
    unsafe {
        S_ACCEPT = accept;
    }
    let mut f = framed(Mode::Compressed);
    let a = f.write(Packet::Tiny(Tiny { reqi: RequestId(r1), subt: TinyType::Ping }));
    assert!(a.is_ok(), "a transport that accepts bytes does not make write fail");
    assert!(out_len() == 4, "the packet reaches the transport as its complete frame, however few bytes are accepted per call");
    let b = f.write(Packet::Tiny(Tiny { reqi: RequestId(r2), subt: TinyType::None }));
    assert!(b.is_ok());
    assert!(out_len() == 8, "the second packet is appended completely");
    assert!(out_byte(0) == 1 && out_byte(1) == 3 && out_byte(2) == r1 && out_byte(3) == 3, "first frame contiguous and in order");
    assert!(out_byte(4) == 1 && out_byte(5) == 3 && out_byte(6) == r2 && out_byte(7) == 0, "second frame after the first, contiguous");
    kani::cover!(unsafe { S_WRITE_CALLS } >= 1, "transport called");
    core::mem::forget(a);
    core::mem::forget(b);
    core::mem::forget(f);
}

//@ id: write_complete_accept1
//@ prop: C06
//@ functions: insim/src/net/blocking_impl/framed.rs Framed::write
//@ statement: blocking Framed::write over a transport that accepts at most 1 byte(s) per write call: two TINY packets (symbolic request ids) each reach the transport as their complete 4-byte frame, contiguous and in call order
//@ bounded: frames of 4 bytes, 2 packets, acceptance count 1 per call; Codec::encode replaced by an executable model of its proved contract (C03/verus/framing::Codec::encode)
//@ covers: 1
//@ timeout: 900
#[kani::proof]
#[kani::stub(core::fmt::write, verif_fmt_ok)]
#[kani::stub(crate::net::codec::Codec::decode, decode_model)]
#[kani::stub(crate::net::codec::Codec::encode, encode_model)]
fn c06_write_complete_accept1() {
    write_two(1);
}

//@ id: write_complete_accept2
//@ prop: C06
//@ functions: insim/src/net/blocking_impl/framed.rs Framed::write
//@ statement: blocking Framed::write over a transport that accepts at most 2 byte(s) per write call: two TINY packets (symbolic request ids) each reach the transport as their complete 4-byte frame, contiguous and in call order
//@ bounded: frames of 4 bytes, 2 packets, acceptance count 2 per call; Codec::encode replaced by an executable model of its proved contract (C03/verus/framing::Codec::encode)
//@ covers: 1
//@ timeout: 900
#[kani::proof]
#[kani::stub(core::fmt::write, verif_fmt_ok)]
#[kani::stub(crate::net::codec::Codec::decode, decode_model)]
#[kani::stub(crate::net::codec::Codec::encode, encode_model)]
fn c06_write_complete_accept2() {
    write_two(2);
}

//@ id: write_complete_accept3
//@ prop: C06
//@ functions: insim/src/net/blocking_impl/framed.rs Framed::write
//@ statement: blocking Framed::write over a transport that accepts at most 3 byte(s) per write call: two TINY packets (symbolic request ids) each reach the transport as their complete 4-byte frame, contiguous and in call order
//@ bounded: frames of 4 bytes, 2 packets, acceptance count 3 per call; Codec::encode replaced by an executable model of its proved contract (C03/verus/framing::Codec::encode)
//@ covers: 1
//@ timeout: 900
#[kani::proof]
#[kani::stub(core::fmt::write, verif_fmt_ok)]
#[kani::stub(crate::net::codec::Codec::decode, decode_model)]
#[kani::stub(crate::net::codec::Codec::encode, encode_model)]
fn c06_write_complete_accept3() {
    write_two(3);
}

//@ id: write_complete_accept4
//@ prop: C06
//@ functions: insim/src/net/blocking_impl/framed.rs Framed::write
//@ statement: blocking Framed::write over a transport that accepts at most 4 byte(s) per write call: two TINY packets (symbolic request ids) each reach the transport as their complete 4-byte frame, contiguous and in call order
//@ bounded: frames of 4 bytes, 2 packets, acceptance count 4 per call; Codec::encode replaced by an executable model of its proved contract (C03/verus/framing::Codec::encode)
//@ covers: 1
//@ timeout: 900
#[kani::proof]
#[kani::stub(core::fmt::write, verif_fmt_ok)]
#[kani::stub(crate::net::codec::Codec::decode, decode_model)]
#[kani::stub(crate::net::codec::Codec::encode, encode_model)]
fn c06_write_complete_accept4() {
    write_two(4);
}
