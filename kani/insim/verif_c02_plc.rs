//! C02: the IS_PLC car bit table is a set of private associated constants; an accessor is
//! appended to plc.rs in the scratch copy so that the generated constants obligation
//! (lib/vf/spec.py, table `plc_cars`) can read them.
//@inject-into insim/src/insim/plc.rs
//@|
//@|#[cfg(kani)]
//@|impl PlcAllowedCarsSet {
//@|    pub(crate) fn verif_bits_table() -> [(&'static str, u32); 20] {
//@|        [
//@|            ("XF_GTI", Self::XF_GTI), ("XR_GT", Self::XR_GT), ("XR_GT_TURBO", Self::XR_GT_TURBO), ("RB4", Self::RB4),
//@|            ("FXO_TURBO", Self::FXO_TURBO), ("LX4", Self::LX4), ("LX6", Self::LX6), ("MRT5", Self::MRT5),
//@|            ("UF_1000", Self::UF_1000), ("RACEABOUT", Self::RACEABOUT), ("FZ50", Self::FZ50), ("FORMULA_XR", Self::FORMULA_XR),
//@|            ("XF_GTR", Self::XF_GTR), ("UF_GTR", Self::UF_GTR), ("FORMULA_V8", Self::FORMULA_V8), ("FXO_GTR", Self::FXO_GTR),
//@|            ("XR_GTR", Self::XR_GTR), ("FZ50_GTR", Self::FZ50_GTR), ("BWM_SAUBER_F1_06", Self::BWM_SAUBER_F1_06),
//@|            ("FORMULA_BMW_FB02", Self::FORMULA_BMW_FB02),
//@|        ]
//@|    }
//@|}
