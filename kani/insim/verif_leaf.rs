//! Hand-written leaf codecs of the insim crate, each called directly (not through a derived
//! struct): all wire bytes symbolic. These are where a reader/writer pair can stop being
//! mirror images (C01) and where a decoder can panic (C04).
use std::io::Cursor;

use insim_core::binrw::{BinRead, BinWrite};

use crate::insim::{CimMode, ConInfo, Fuel, Fuel200, SmallType};

fn verif_fmt_ok(_o: &mut dyn core::fmt::Write, _a: core::fmt::Arguments<'_>) -> core::fmt::Result {
    Ok(())
}

//@ id: coninfo_bytes
//@ prop: C01
//@ functions: insim/src/insim/contact.rs <ConInfo as BinRead>::read_options; insim/src/insim/contact.rs <ConInfo as BinWrite>::write_options
//@ statement: for ALL 16-byte images b of the CON sub-struct whose spare bits are zero (byte 2, low nibble of the gear byte): decoding succeeds, splits ThrBrk / CluHan / GearSp into their 4-bit halves (throttle, clutch and gear in the HIGH nibble), and re-encoding the decoded value yields exactly b - no nibble is dropped, shifted into the wrong half or swapped
//@ covers: 2
//@ timeout: 900
#[kani::proof]
#[kani::stub(core::fmt::write, verif_fmt_ok)]
fn c01_coninfo_bytes() {
    let mut b: [u8; 16] = kani::any();
    b[2] = 0; // spare
    kani::assume(b[6] & 0x0F == 0); // low 4 bits of GearSp are spare
    let mut c = Cursor::new(&b[..]);
    let r = ConInfo::read_le(&mut c);
    assert!(r.is_ok(), "every CON sub-struct image decodes");
    assert!(c.position() == 16, "consumes 16 bytes");
    if let Ok(v) = &r {
        assert!(v.thr == b[4] >> 4 && v.brk == b[4] & 0x0F, "ThrBrk: high nibble throttle, low nibble brake");
        assert!(v.clu == b[5] >> 4 && v.han == b[5] & 0x0F, "CluHan: high nibble clutch, low nibble handbrake");
        assert!(v.gearsp == b[6] >> 4, "GearSp: gear in the high nibble");
        assert!(v.steer == b[3] && v.speed == b[7] && v.direction == b[8] && v.heading == b[9]);
        assert!(v.accelf == b[10] && v.accelr == b[11]);
        assert!(v.x == i16::from_le_bytes([b[12], b[13]]) && v.y == i16::from_le_bytes([b[14], b[15]]));
        let mut out = [0u8; 32];
        let mut w = Cursor::new(&mut out[..]);
        let wr = v.write_le(&mut w);
        assert!(wr.is_ok(), "a decoded value re-encodes");
        assert!(w.position() == 16, "writes 16 bytes");
        // CompCarInfo is a flag byte read with from_bits_truncate: undefined bits are dropped by design
        let mut i = 2;
        while i < 16 {
            assert!(out[i] == b[i], "re-encodes to the identical bytes");
            i += 1;
        }
        assert!(out[0] == b[0], "player id byte");
        core::mem::forget(wr);
    }
    kani::cover!(matches!(&r, Ok(v) if v.gearsp == 15), "reverse gear");
    kani::cover!(matches!(&r, Ok(v) if v.thr == 15 && v.brk == 0), "full throttle");
    core::mem::forget(r);
}

//@ id: coninfo_total
//@ prop: C04
//@ functions: insim/src/insim/contact.rs <ConInfo as BinRead>::read_options
//@ statement: for ALL 2^128 values of the 16 bytes of a CON sub-struct (no assumption on spare bits): decoding returns a value or an error, never panics, and never reads past its 16 bytes
//@ covers: 1
//@ timeout: 900
#[kani::proof]
#[kani::stub(core::fmt::write, verif_fmt_ok)]
fn c04_coninfo_total() {
    let b: [u8; 16] = kani::any();
    let mut c = Cursor::new(&b[..]);
    let r = ConInfo::read_le(&mut c);
    assert!(c.position() <= 16, "never reads past its 16 bytes");
    kani::cover!(r.is_ok(), "decoded");
    core::mem::forget(r);
}

//@ id: cimmode_total
//@ prop: C04
//@ functions: insim/src/insim/cim.rs <CimMode as BinRead>::read_options; insim/src/insim/cim.rs <CimSubModeNormal as From<u8>>::from; insim/src/insim/cim.rs <CimSubModeGarage as From<u8>>::from; insim/src/insim/cim.rs <CimSubModeShiftU as From<u8>>::from
//@ statement: for ALL 2^24 values of the three IS_CIM mode bytes (mode, sub-mode, selected type): decoding returns a value or an error - it never panics (an out-of-range sub-mode byte from the peer must not reach unreachable!())
//@ covers: 2
//@ timeout: 900
#[kani::proof]
#[kani::stub(core::fmt::write, verif_fmt_ok)]
fn c04_cimmode_total() {
    let b: [u8; 3] = kani::any();
    let mut c = Cursor::new(&b[..]);
    let r = CimMode::read_le(&mut c);
    assert!(c.position() <= 3, "never reads past its 3 bytes");
    if r.is_ok() {
        assert!(b[0] <= 6, "only the seven defined interface modes decode");
    }
    kani::cover!(r.is_ok(), "decoded");
    kani::cover!(r.is_err(), "refused");
    core::mem::forget(r);
}

//@ id: cimmode_roundtrip
//@ prop: C01
//@ functions: insim/src/insim/cim.rs <CimMode as BinRead>::read_options; insim/src/insim/cim.rs <CimMode as BinWrite>::write_options
//@ statement: for ALL canonical IS_CIM mode triples (mode 0..=6, sub-mode within the mode's range, selected type 0 unless Shift+U; unused sub-mode bytes 0): decode then re-encode yields the identical 3 bytes
//@ covers: 2
//@ timeout: 900
#[kani::proof]
#[kani::stub(core::fmt::write, verif_fmt_ok)]
fn c01_cimmode_roundtrip() {
    let b: [u8; 3] = kani::any();
    kani::assume(b[0] <= 6);
    match b[0] {
        0 => kani::assume(b[1] <= 4 && b[2] == 0),
        3 => kani::assume(b[1] <= 8 && b[2] == 0),
        6 => kani::assume(b[1] <= 2),
        _ => kani::assume(b[1] == 0 && b[2] == 0),
    }
    let mut c = Cursor::new(&b[..]);
    let r = CimMode::read_le(&mut c);
    assert!(r.is_ok(), "canonical mode triple decodes");
    if let Ok(v) = &r {
        let mut out = [0u8; 8];
        let mut w = Cursor::new(&mut out[..]);
        let wr = v.write_le(&mut w);
        assert!(wr.is_ok());
        assert!(w.position() == 3, "writes 3 bytes");
        assert!(out[0] == b[0] && out[1] == b[1] && out[2] == b[2], "re-encodes to the identical bytes");
        core::mem::forget(wr);
    }
    kani::cover!(b[0] == 6 && b[1] == 2, "Shift+U edit");
    kani::cover!(b[0] == 3 && b[1] == 8, "garage passengers");
    core::mem::forget(r);
}

//@ id: fuel_bytes
//@ prop: C01
//@ functions: insim/src/insim/lap.rs <Fuel as BinRead>::read_options; insim/src/insim/lap.rs <Fuel as BinWrite>::write_options; insim/src/insim/lap.rs <Fuel200 as BinRead>::read_options; insim/src/insim/lap.rs <Fuel200 as BinWrite>::write_options
//@ statement: for all 256 fuel bytes, both fuel encodings: decode then re-encode yields the identical byte (255 = not available)
//@ covers: 1
#[kani::proof]
#[kani::stub(core::fmt::write, verif_fmt_ok)]
fn c01_fuel_bytes() {
    let b: [u8; 1] = kani::any();
    let mut c = Cursor::new(&b[..]);
    let r = Fuel::read_le(&mut c);
    assert!(r.is_ok());
    if let Ok(v) = &r {
        assert!(matches!(v, Fuel::No) == (b[0] == 255), "255 means not available");
        let mut out = [0u8; 4];
        let mut w = Cursor::new(&mut out[..]);
        let wr = v.write_le(&mut w);
        assert!(wr.is_ok() && w.position() == 1 && out[0] == b[0], "re-encodes to the identical byte");
        core::mem::forget(wr);
    }
    let mut c2 = Cursor::new(&b[..]);
    let r2 = Fuel200::read_le(&mut c2);
    assert!(r2.is_ok());
    if let Ok(v) = &r2 {
        assert!(matches!(v, Fuel200::No) == (b[0] == 255));
        let mut out = [0u8; 4];
        let mut w = Cursor::new(&mut out[..]);
        let wr = v.write_le(&mut w);
        assert!(wr.is_ok() && w.position() == 1 && out[0] == b[0], "re-encodes to the identical byte");
        core::mem::forget(wr);
    }
    kani::cover!(b[0] == 255, "not available");
    core::mem::forget(r);
    core::mem::forget(r2);
}

fn small_rt(tag: u8, mask: u32) {
    let val: u32 = kani::any::<u32>() & mask;
    let vb = val.to_le_bytes();
    let b = [tag, vb[0], vb[1], vb[2], vb[3]];
    let mut c = Cursor::new(&b[..]);
    let r = SmallType::read_le(&mut c);
    assert!(r.is_ok(), "defined IS_SMALL sub-type decodes");
    if let Ok(v) = &r {
        let mut out = [0u8; 8];
        let mut w = Cursor::new(&mut out[..]);
        let wr = v.write_le(&mut w);
        assert!(wr.is_ok() && w.position() == 5, "writes 5 bytes");
        assert!(out[0] == b[0] && out[1] == b[1] && out[2] == b[2] && out[3] == b[3] && out[4] == b[4],
            "re-encodes to the identical bytes");
        core::mem::forget(wr);
    }
    kani::cover!(val != 0, "non-zero value");
    core::mem::forget(r);
}

//@ id: small_plain_subtypes
//@ prop: C01
//@ functions: insim/src/insim/small.rs <SmallType as BinRead>::read_options; insim/src/insim/small.rs <SmallType as BinWrite>::write_options
//@ statement: IS_SMALL sub-types NONE (value 0), TMS (0/1), LCS and LCL (every subset of their defined flag bits): decode then re-encode yields the identical 5 bytes (timed sub-types: C15; VTA: enum tables; ALC: hash-set backed, not reachable)
//@ covers: 1
//@ timeout: 900
#[kani::proof]
#[kani::stub(core::fmt::write, verif_fmt_ok)]
fn c01_small_plain_subtypes() {
    small_rt(0, 0);
    small_rt(4, 1);
    small_rt(9, crate::insim::LcsFlags::all().bits());
    small_rt(10, crate::insim::LclFlags::all().bits());
}

//@ id: small_total
//@ prop: C04
//@ functions: insim/src/insim/small.rs <SmallType as BinRead>::read_options
//@ statement: for sub-type bytes 0,1,2,4,5,6,7,9,10 (defined; VTA=3 and ALC=8 excluded) and 11,12,128,255 (undefined), each with ALL 2^32 value fields: decoding IS_SMALL returns a value or an error, never panics, never reads past its 5 bytes; undefined sub-types are errors
//@ covers: 2
//@ timeout: 900
#[kani::proof]
#[kani::stub(core::fmt::write, verif_fmt_ok)]
fn c04_small_total() {
    // the sub-type byte is enumerated concretely (a symbolic tag keeps the hash-set arm alive)
    for tag in [0u8, 1, 2, 4, 5, 6, 7, 9, 10, 11, 12, 128, 255] {
        let v: [u8; 4] = kani::any();
        let b = [tag, v[0], v[1], v[2], v[3]];
        let mut c = Cursor::new(&b[..]);
        let r = SmallType::read_le(&mut c);
        assert!(c.position() <= 5);
        assert!(r.is_ok() == (tag <= 10), "exactly the defined sub-types decode");
        kani::cover!(r.is_ok(), "decoded");
        kani::cover!(r.is_err(), "refused");
        core::mem::forget(r);
    }
}
