//! C15: race-length byte (Kani twins of the Verus unit `racelaps`) and the hand-written
//! IS_SMALL value conversions.
use std::{io::Cursor, time::Duration};

use insim_core::binrw::{BinRead, BinWrite};

use crate::insim::{RaceLaps, SmallType};

fn any_racelaps() -> RaceLaps {
    let k: u8 = kani::any();
    let n: usize = kani::any();
    match k % 3 {
        0 => RaceLaps::Practice,
        1 => RaceLaps::Laps(n),
        _ => RaceLaps::Hours(n),
    }
}

fn spec_enc(r: &RaceLaps) -> u8 {
    match r {
        RaceLaps::Practice => 0,
        RaceLaps::Laps(n) if (1..=99).contains(n) => *n as u8,
        RaceLaps::Laps(n) if (100..=1000).contains(n) => ((*n - 100) / 10 + 100) as u8,
        RaceLaps::Laps(_) => 0,
        RaceLaps::Hours(h) if (1..=48).contains(h) => (*h + 190) as u8,
        RaceLaps::Hours(_) => 0,
    }
}

//@ id: racelaps_encode_twin
//@ prop: C15
//@ functions: insim/src/insim/racelaps.rs <u8 as From<RaceLaps>>::from
//@ statement: for ALL RaceLaps values (any usize payload): u8::from(r) == enc(r) of the InSim table - representable values exactly, laps in 100..=1000 rounded down to the 10-lap step, everything out of range -> practice byte 0; no overflow panic
//@ covers: 2
#[kani::proof]
fn c15_racelaps_encode_twin() {
    let r = any_racelaps();
    let b = u8::from(r);
    assert!(b == spec_enc(&r), "encoded race length equals the InSim table (out of range -> practice)");
    kani::cover!(matches!(r, RaceLaps::Hours(h) if h > 48), "hours beyond range");
    kani::cover!(matches!(r, RaceLaps::Laps(n) if n > 1000), "laps beyond range");
}

//@ id: racelaps_decode_twin
//@ prop: C15
//@ functions: insim/src/insim/racelaps.rs <RaceLaps as From<u8>>::from; insim/src/insim/racelaps.rs <RaceLaps as BinRead>::read_options; insim/src/insim/racelaps.rs <RaceLaps as BinWrite>::write_options
//@ statement: for all 256 wire bytes b (through the real BinRead/BinWrite impls): b <= 238 decodes to the InSim table value and re-encodes to b; b >= 239 decodes to Practice
//@ covers: 2
#[kani::proof]
fn c15_racelaps_decode_twin() {
    let b: u8 = kani::any();
    let buf = [b];
    let mut c = Cursor::new(&buf[..]);
    let r = RaceLaps::read_le(&mut c);
    assert!(r.is_ok(), "every race-length byte decodes");
    if let Ok(v) = &r {
        match b {
            0 => assert!(matches!(v, RaceLaps::Practice)),
            1..=99 => assert!(matches!(v, RaceLaps::Laps(n) if *n == b as usize)),
            100..=190 => assert!(matches!(v, RaceLaps::Laps(n) if *n == (b as usize - 100) * 10 + 100)),
            191..=238 => assert!(matches!(v, RaceLaps::Hours(h) if *h == b as usize - 190)),
            _ => assert!(matches!(v, RaceLaps::Practice), "undefined bytes are practice"),
        }
        let mut w = Cursor::new(Vec::new());
        let wr = v.write_le(&mut w);
        assert!(wr.is_ok());
        let out = w.into_inner();
        assert!(out.len() == 1);
        if b <= 238 {
            assert!(out[0] == b, "defined wire value re-encodes to itself");
        } else {
            assert!(out[0] == 0, "undefined wire value re-encodes as practice");
        }
        core::mem::forget(wr);
    }
    kani::cover!(b > 238, "undefined byte");
    kani::cover!(b > 190 && b <= 238, "hours");
    core::mem::forget(r);
}

fn any_duration() -> Duration {
    let secs: u64 = kani::any();
    let nanos: u32 = kani::any();
    kani::assume(nanos < 1_000_000_000);
    Duration::new(secs, nanos)
}

fn small_encode_check(v: SmallType, d: Duration, tag: u8, res: u128) {
    let mut w = Cursor::new(Vec::new());
    let r = v.write_le(&mut w);
    let q = d.as_millis() / res;
    let fits = q <= u32::MAX as u128;
    assert!(r.is_ok() == fits, "Ok exactly when floor(ms/resolution) fits 32 bits");
    let out = w.into_inner();
    if r.is_ok() {
        assert!(out.len() == 5);
        assert!(out[0] == tag, "sub-type byte");
        let val = u32::from_le_bytes([out[1], out[2], out[3], out[4]]);
        assert!(val as u128 == q, "value field is exactly floor(ms/resolution)");
    }
    kani::cover!(r.is_ok() && q > 0, "encoded");
    kani::cover!(!fits, "out of range");
    core::mem::forget(r);
    core::mem::forget(v);
}

fn small_decode_check(tag: u8, res: u128) {
    let val: u32 = kani::any();
    let vb = val.to_le_bytes();
    let buf = [tag, vb[0], vb[1], vb[2], vb[3]];
    let mut c = Cursor::new(&buf[..]);
    let r = SmallType::read_le(&mut c);
    assert!(r.is_ok());
    if let Ok(v) = &r {
        let d = match v {
            SmallType::Ssp(d) | SmallType::Ssg(d) | SmallType::Stp(d) | SmallType::Rtp(d) | SmallType::Nli(d) => *d,
            _ => {
                assert!(false, "timed sub-type decodes to a timed variant");
                Duration::ZERO
            },
        };
        assert!(d.as_millis() == val as u128 * res, "decoded duration is value * resolution");
        let mut w = Cursor::new(Vec::new());
        let wr = v.write_le(&mut w);
        assert!(wr.is_ok(), "decoded value re-encodes");
        let out = w.into_inner();
        assert!(out.len() == 5 && out[0] == buf[0] && out[1] == buf[1] && out[2] == buf[2] && out[3] == buf[3] && out[4] == buf[4],
            "re-encodes to the identical bytes");
        core::mem::forget(wr);
    }
    kani::cover!(val > 429_496_729, "value whose millisecond form exceeds 2^32");
    core::mem::forget(r);
}

//@ id: small_ssp_encode
//@ prop: C15
//@ functions: insim/src/insim/small.rs <SmallType as BinWrite>::write_options
//@ statement: SmallType::Ssp (sub-type 1, resolution 10 ms), for ALL Durations: the write is Ok iff floor(ms/10) fits u32 and then the value field holds exactly that floor; otherwise an error - never a wrapped value
//@ covers: 2
//@ timeout: 900
#[kani::proof]
fn c15_small_ssp_encode() {
    let d = any_duration();
    small_encode_check(SmallType::Ssp(d), d, 1, 10);
}

//@ id: small_ssp_decode
//@ prop: C15
//@ tier: thorough
//@ functions: insim/src/insim/small.rs <SmallType as BinRead>::read_options; insim/src/insim/small.rs <SmallType as BinWrite>::write_options
//@ statement: IS_SMALL sub-type 1 (Ssp), for ALL 2^32 value fields: decoding gives value*10 ms and re-encoding gives the identical 5 bytes
//@ covers: 1
//@ timeout: 900
#[kani::proof]
fn c15_small_ssp_decode() {
    small_decode_check(1, 10);
}

//@ id: small_ssg_encode
//@ prop: C15
//@ functions: insim/src/insim/small.rs <SmallType as BinWrite>::write_options
//@ statement: SmallType::Ssg (sub-type 2, resolution 10 ms), for ALL Durations: the write is Ok iff floor(ms/10) fits u32 and then the value field holds exactly that floor; otherwise an error - never a wrapped value
//@ covers: 2
//@ timeout: 900
#[kani::proof]
fn c15_small_ssg_encode() {
    let d = any_duration();
    small_encode_check(SmallType::Ssg(d), d, 2, 10);
}

//@ id: small_ssg_decode
//@ prop: C15
//@ tier: thorough
//@ functions: insim/src/insim/small.rs <SmallType as BinRead>::read_options; insim/src/insim/small.rs <SmallType as BinWrite>::write_options
//@ statement: IS_SMALL sub-type 2 (Ssg), for ALL 2^32 value fields: decoding gives value*10 ms and re-encoding gives the identical 5 bytes
//@ covers: 1
//@ timeout: 900
#[kani::proof]
fn c15_small_ssg_decode() {
    small_decode_check(2, 10);
}

//@ id: small_stp_encode
//@ prop: C15
//@ functions: insim/src/insim/small.rs <SmallType as BinWrite>::write_options
//@ statement: SmallType::Stp (sub-type 5, resolution 10 ms), for ALL Durations: the write is Ok iff floor(ms/10) fits u32 and then the value field holds exactly that floor; otherwise an error - never a wrapped value
//@ covers: 2
//@ timeout: 900
#[kani::proof]
fn c15_small_stp_encode() {
    let d = any_duration();
    small_encode_check(SmallType::Stp(d), d, 5, 10);
}

//@ id: small_stp_decode
//@ prop: C15
//@ tier: thorough
//@ functions: insim/src/insim/small.rs <SmallType as BinRead>::read_options; insim/src/insim/small.rs <SmallType as BinWrite>::write_options
//@ statement: IS_SMALL sub-type 5 (Stp), for ALL 2^32 value fields: decoding gives value*10 ms and re-encoding gives the identical 5 bytes
//@ covers: 1
//@ timeout: 900
#[kani::proof]
fn c15_small_stp_decode() {
    small_decode_check(5, 10);
}

//@ id: small_rtp_encode
//@ prop: C15
//@ functions: insim/src/insim/small.rs <SmallType as BinWrite>::write_options
//@ statement: SmallType::Rtp (sub-type 6, resolution 10 ms), for ALL Durations: the write is Ok iff floor(ms/10) fits u32 and then the value field holds exactly that floor; otherwise an error - never a wrapped value
//@ covers: 2
//@ timeout: 900
#[kani::proof]
fn c15_small_rtp_encode() {
    let d = any_duration();
    small_encode_check(SmallType::Rtp(d), d, 6, 10);
}

//@ id: small_rtp_decode
//@ prop: C15
//@ tier: thorough
//@ functions: insim/src/insim/small.rs <SmallType as BinRead>::read_options; insim/src/insim/small.rs <SmallType as BinWrite>::write_options
//@ statement: IS_SMALL sub-type 6 (Rtp), for ALL 2^32 value fields: decoding gives value*10 ms and re-encoding gives the identical 5 bytes
//@ covers: 1
//@ timeout: 900
#[kani::proof]
fn c15_small_rtp_decode() {
    small_decode_check(6, 10);
}

//@ id: small_nli_encode
//@ prop: C15
//@ functions: insim/src/insim/small.rs <SmallType as BinWrite>::write_options
//@ statement: SmallType::Nli (sub-type 7, resolution 1 ms), for ALL Durations: the write is Ok iff floor(ms/1) fits u32 and then the value field holds exactly that floor; otherwise an error - never a wrapped value
//@ covers: 2
//@ timeout: 900
#[kani::proof]
fn c15_small_nli_encode() {
    let d = any_duration();
    small_encode_check(SmallType::Nli(d), d, 7, 1);
}

//@ id: small_nli_decode
//@ prop: C15
//@ functions: insim/src/insim/small.rs <SmallType as BinRead>::read_options; insim/src/insim/small.rs <SmallType as BinWrite>::write_options
//@ statement: IS_SMALL sub-type 7 (Nli), for ALL 2^32 value fields: decoding gives value*1 ms and re-encoding gives the identical 5 bytes
//@ covers: 1
//@ timeout: 900
#[kani::proof]
fn c15_small_nli_decode() {
    small_decode_check(7, 1);
}
