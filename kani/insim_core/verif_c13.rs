//! C13: Vehicle identifiers map one-to-one onto their 4 wire bytes.
use std::io::Cursor;

use binrw::{BinRead, BinWrite};

use crate::vehicle::Vehicle;

fn is_alnum(c: u8) -> bool {
    (c >= b'0' && c <= b'9') || (c >= b'A' && c <= b'Z') || (c >= b'a' && c <= b'z')
}

//@ id: vehicle_bytes
//@ prop: C13
//@ functions: insim_core/src/vehicle.rs <Vehicle as BinRead>::read_options; insim_core/src/vehicle.rs <Vehicle as BinWrite>::write_options; insim_core/src/vehicle.rs Vehicle::is_mod; insim_core/src/vehicle.rs Vehicle::is_builtin
//@ statement: for ALL 2^32 values b of the 4 wire bytes: all zeros decodes to Unknown; three ASCII alphanumerics + NUL decodes to a built-in (never a mod, never Unknown) or is an error; everything else decodes to Mod(u32::from_le_bytes(b)); an error occurs only for built-in-shaped names; every decoded value re-encodes to exactly b; is_mod <=> Mod(_) and is_builtin == !is_mod
//@ covers: 3
//@ timeout: 900
#[kani::proof]
fn c13_vehicle_bytes() {
    let b: [u8; 4] = kani::any();
    let mut c = Cursor::new(&b[..]);
    let r = Vehicle::read_le(&mut c);
    let shaped = is_alnum(b[0]) && is_alnum(b[1]) && is_alnum(b[2]) && b[3] == 0;
    match &r {
        Ok(v) => {
            if b == [0, 0, 0, 0] {
                assert!(matches!(v, Vehicle::Unknown), "all zeros is Unknown");
            } else if shaped {
                assert!(!matches!(v, Vehicle::Mod(_)), "built-in shaped name never decodes to a mod");
                assert!(!matches!(v, Vehicle::Unknown), "built-in shaped name never decodes to Unknown");
            } else {
                assert!(matches!(v, Vehicle::Mod(m) if *m == u32::from_le_bytes(b)), "anything else is the mod id (LE u32)");
            }
            assert!(v.is_mod() == matches!(v, Vehicle::Mod(_)), "is_mod <=> Mod(_)");
            assert!(v.is_builtin() == !v.is_mod(), "is_builtin == !is_mod");
            let mut w = Cursor::new(Vec::new());
            let wr = v.write_le(&mut w);
            assert!(wr.is_ok(), "decoded vehicle re-encodes");
            let out = w.into_inner();
            assert!(out.len() == 4, "re-encoded vehicle is 4 bytes");
            assert!(out[0] == b[0] && out[1] == b[1] && out[2] == b[2] && out[3] == b[3], "re-encodes to the identical 4 bytes");
            core::mem::forget(wr);
        },
        Err(_) => {
            assert!(shaped, "only an unrecognised built-in-style name is an error");
        },
    }
    kani::cover!(r.is_ok() && shaped, "built-in decoded");
    kani::cover!(r.is_err(), "unknown built-in-style name refused");
    kani::cover!(matches!(r, Ok(Vehicle::Mod(_))), "mod decoded");
    core::mem::forget(r);
}

//@ id: vehicle_position
//@ prop: C13
//@ functions: insim_core/src/vehicle.rs <Vehicle as BinRead>::read_options
//@ statement: for all 4 wire bytes followed by 2 more bytes: decoding consumes exactly 4 bytes (on success) and never more than 4
//@ covers: 1
//@ timeout: 900
#[kani::proof]
fn c13_vehicle_position() {
    let b: [u8; 6] = kani::any();
    let mut c = Cursor::new(&b[..]);
    let r = Vehicle::read_le(&mut c);
    assert!(c.position() <= 4, "never reads past its 4 bytes");
    if r.is_ok() {
        assert!(c.position() == 4, "consumes exactly 4 bytes");
    }
    kani::cover!(r.is_ok(), "decoded");
    core::mem::forget(r);
}
