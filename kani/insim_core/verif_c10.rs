//! C10: the marker letter -> codepage table (Codepage::as_lfs_codepage is a private trait:
//! three accessor functions are appended to codepages.rs in the scratch copy).
//@inject-into insim_core/src/string/codepages.rs
//@|
//@|#[cfg(kani)]
//@|pub(crate) fn verif_as_lfs_codepage_char(c: char) -> Option<&'static encoding_rs::Encoding> {
//@|    c.as_lfs_codepage()
//@|}
//@|#[cfg(kani)]
//@|pub(crate) fn verif_as_lfs_codepage_u8(c: u8) -> Option<&'static encoding_rs::Encoding> {
//@|    c.as_lfs_codepage()
//@|}
//@|#[cfg(kani)]
//@|pub(crate) fn verif_is_lfs_codepage(c: char) -> bool {
//@|    c.is_lfs_codepage()
//@|}
//@|#[cfg(kani)]
//@|pub(crate) fn verif_is_lfs_codepage_u8(c: u8) -> bool {
//@|    c.is_lfs_codepage()
//@|}
//@|#[cfg(kani)]
//@|pub(crate) fn verif_propagate(c: char) -> bool {
//@|    c.propagate_lfs_codepage()
//@|}
//@|#[cfg(kani)]
//@|pub(crate) fn verif_valid_codepages() -> [char; 10] {
//@|    VALID_CODEPAGES_FOR_ENCODING
//@|}
use encoding_rs::Encoding;

use crate::string::codepages::{
    verif_as_lfs_codepage_char, verif_as_lfs_codepage_u8, verif_is_lfs_codepage, verif_is_lfs_codepage_u8,
    verif_propagate, verif_valid_codepages,
};

/// The table of the property statement: ^L ^G ^C ^E ^T ^B ^J ^S ^K ^H are Windows codepages
/// 1252 1253 1251 1250 1254 1257 932 936 949 950; ^8 is Latin-1 again.
fn spec(c: char) -> Option<&'static Encoding> {
    match c {
        'L' | '8' => Some(encoding_rs::WINDOWS_1252),
        'G' => Some(encoding_rs::WINDOWS_1253),
        'C' => Some(encoding_rs::WINDOWS_1251),
        'E' => Some(encoding_rs::WINDOWS_1250),
        'T' => Some(encoding_rs::WINDOWS_1254),
        'B' => Some(encoding_rs::WINDOWS_1257),
        'J' => Some(encoding_rs::SHIFT_JIS), // windows-932
        'S' => Some(encoding_rs::GBK),       // windows-936
        'K' => Some(encoding_rs::EUC_KR),    // windows-949
        'H' => Some(encoding_rs::BIG5),      // windows-950
        _ => None,
    }
}

fn same(a: Option<&'static Encoding>, b: Option<&'static Encoding>) -> bool {
    match (a, b) {
        (None, None) => true,
        (Some(x), Some(y)) => core::ptr::eq(x, y),
        _ => false,
    }
}

//@ id: codepage_table_char
//@ prop: C10
//@ functions: insim_core/src/string/codepages.rs <char as Codepage>::as_lfs_codepage; insim_core/src/string/codepages.rs <char as Codepage>::is_lfs_codepage; insim_core/src/string/codepages.rs <char as Codepage>::propagate_lfs_codepage
//@ statement: for ALL chars c: as_lfs_codepage(c) is exactly the encoding LFS assigns to the marker letter (L,8->1252 G->1253 C->1251 E->1250 T->1254 B->1257 J->932 S->936 K->949 H->950; identity of the encoding_rs static) and None for every other character; is_lfs_codepage(c) <=> as_lfs_codepage(c).is_some(); only '8' is propagated into the text
//@ covers: 2
#[kani::proof]
fn c10_codepage_table_char() {
    let c: char = kani::any();
    let got = verif_as_lfs_codepage_char(c);
    assert!(same(got, spec(c)), "marker letter selects the Windows codepage LFS assigns to it");
    assert!(verif_is_lfs_codepage(c) == got.is_some(), "is_lfs_codepage <=> a table entry exists");
    assert!(verif_propagate(c) == (c == '8'), "only ^8 is kept in the text");
    kani::cover!(got.is_some(), "marker letter");
    kani::cover!(got.is_none() && c.is_ascii_uppercase(), "upper-case letter that is no marker");
}

//@ id: codepage_table_u8
//@ prop: C10
//@ functions: insim_core/src/string/codepages.rs <u8 as Codepage>::as_lfs_codepage; insim_core/src/string/codepages.rs <u8 as Codepage>::is_lfs_codepage
//@ statement: for ALL 256 byte values: the byte-level table used by the decoder agrees with the char-level table
//@ covers: 1
#[kani::proof]
fn c10_codepage_table_u8() {
    let b: u8 = kani::any();
    let got = verif_as_lfs_codepage_u8(b);
    assert!(same(got, spec(b as char)), "byte marker selects the same codepage");
    assert!(verif_is_lfs_codepage_u8(b) == got.is_some());
    kani::cover!(got.is_some(), "marker byte");
}

//@ id: codepage_encode_order
//@ prop: C10
//@ functions: insim_core/src/string/codepages.rs VALID_CODEPAGES_FOR_ENCODING
//@ statement: the encoder's search list contains each of the ten marker letters L G C E T B J H S K exactly once and nothing else, and every entry has a table row
//@ covers: 1
#[kani::proof]
fn c10_codepage_encode_order() {
    let v = verif_valid_codepages();
    let letters = ['L', 'G', 'C', 'E', 'T', 'B', 'J', 'H', 'S', 'K'];
    let mut i = 0;
    while i < 10 {
        let mut count = 0;
        let mut j = 0;
        while j < 10 {
            if v[j] == letters[i] {
                count += 1;
            }
            j += 1;
        }
        assert!(count == 1, "each marker letter appears exactly once in the encoder's search order");
        assert!(verif_as_lfs_codepage_char(v[i]).is_some(), "every searched codepage has a table row");
        i += 1;
    }
    assert!(v[0] == 'L', "Latin-1 is tried first");
    kani::cover!(true, "reached");
}
