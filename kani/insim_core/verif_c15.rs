//! C15: scaled duration helpers (insim_core/src/duration.rs), all four instantiations
//! used by the packet declarations: <u16,1> <u16,10> <u32,1> <u32,10>.
use std::{io::Cursor, time::Duration};

use binrw::Endian;

use crate::duration::{binrw_parse_duration, binrw_write_duration};

fn any_duration() -> Duration {
    let secs: u64 = kani::any();
    let nanos: u32 = kani::any();
    kani::assume(nanos < 1_000_000_000);
    Duration::new(secs, nanos)
}

macro_rules! duration_checks {
    ($wname:ident, $rname:ident, $t:ty, $scale:expr, $bytes:expr) => {
        fn $wname() {
            let d = any_duration();
            let mut w = Cursor::new(Vec::new());
            let r = binrw_write_duration::<$t, $scale, _>(&d, &mut w, Endian::Little, ());
            let q: u128 = d.as_millis() / $scale;
            let fits = q <= (<$t>::MAX as u128);
            assert!(r.is_ok() == fits, "Ok exactly when floor(ms/scale) fits the field");
            let out = w.into_inner();
            if r.is_ok() {
                assert!(out.len() == $bytes, "field width");
                let mut le = [0u8; $bytes];
                le.copy_from_slice(&out[..]);
                assert!(<$t>::from_le_bytes(le) as u128 == q, "wire value is exactly floor(ms/scale), little endian");
            }
            kani::cover!(r.is_ok() && q > 0, "encoded");
            kani::cover!(r.is_err(), "refused");
            core::mem::forget(r);
        }

        fn $rname() {
            let v: $t = kani::any();
            let bytes = v.to_le_bytes();
            let mut c = Cursor::new(&bytes[..]);
            let r = binrw_parse_duration::<$t, $scale, _>(&mut c, Endian::Little, ());
            assert!(r.is_ok(), "every wire value decodes");
            if let Ok(d) = &r {
                assert!(d.as_millis() == (v as u128) * $scale, "decoded duration is v * scale ms");
                let mut w = Cursor::new(Vec::new());
                let wr = binrw_write_duration::<$t, $scale, _>(d, &mut w, Endian::Little, ());
                assert!(wr.is_ok(), "decoded duration re-encodes");
                let out = w.into_inner();
                assert!(out.len() == $bytes);
                let mut le = [0u8; $bytes];
                le.copy_from_slice(&out[..]);
                assert!(<$t>::from_le_bytes(le) == v, "re-encodes to the same wire value");
                core::mem::forget(wr);
            }
            kani::cover!(r.is_ok(), "decoded");
            core::mem::forget(r);
        }
    };
}

duration_checks!(write_u16_1, read_u16_1, u16, 1, 2);
duration_checks!(write_u16_10, read_u16_10, u16, 10, 2);
duration_checks!(write_u32_1, read_u32_1, u32, 1, 4);
duration_checks!(write_u32_10, read_u32_10, u32, 10, 4);

//@ id: duration_write_u16_1
//@ prop: C15
//@ functions: insim_core/src/duration.rs binrw_write_duration::<u16,1>
//@ statement: for ALL Durations (u64 secs x nanos < 1e9): the write is Ok iff floor(ms/1) <= u16::MAX, and then the little-endian field holds exactly that floor (rounds down to 1 ms); otherwise an error - never a wrapped or different value
//@ covers: 2
//@ timeout: 900
#[kani::proof]
fn c15_duration_write_u16_1() {
    write_u16_1()
}

//@ id: duration_read_u16_1
//@ prop: C15
//@ functions: insim_core/src/duration.rs binrw_parse_duration::<u16,1>; insim_core/src/duration.rs binrw_write_duration::<u16,1>
//@ statement: for ALL u16 wire values v: decoding gives exactly v*1 ms, and re-encoding the decoded Duration gives v again
//@ covers: 1
//@ timeout: 900
#[kani::proof]
fn c15_duration_read_u16_1() {
    read_u16_1()
}

//@ id: duration_write_u16_10
//@ prop: C15
//@ functions: insim_core/src/duration.rs binrw_write_duration::<u16,10>
//@ statement: for ALL Durations (u64 secs x nanos < 1e9): the write is Ok iff floor(ms/10) <= u16::MAX, and then the little-endian field holds exactly that floor (rounds down to 10 ms); otherwise an error - never a wrapped or different value
//@ covers: 2
//@ timeout: 900
#[kani::proof]
fn c15_duration_write_u16_10() {
    write_u16_10()
}

//@ id: duration_read_u16_10
//@ prop: C15
//@ functions: insim_core/src/duration.rs binrw_parse_duration::<u16,10>; insim_core/src/duration.rs binrw_write_duration::<u16,10>
//@ statement: for ALL u16 wire values v: decoding gives exactly v*10 ms, and re-encoding the decoded Duration gives v again
//@ covers: 1
//@ timeout: 900
#[kani::proof]
fn c15_duration_read_u16_10() {
    read_u16_10()
}

//@ id: duration_write_u32_1
//@ prop: C15
//@ functions: insim_core/src/duration.rs binrw_write_duration::<u32,1>
//@ statement: for ALL Durations (u64 secs x nanos < 1e9): the write is Ok iff floor(ms/1) <= u32::MAX, and then the little-endian field holds exactly that floor (rounds down to 1 ms); otherwise an error - never a wrapped or different value
//@ covers: 2
//@ timeout: 900
#[kani::proof]
fn c15_duration_write_u32_1() {
    write_u32_1()
}

//@ id: duration_read_u32_1
//@ prop: C15
//@ functions: insim_core/src/duration.rs binrw_parse_duration::<u32,1>; insim_core/src/duration.rs binrw_write_duration::<u32,1>
//@ statement: for ALL u32 wire values v: decoding gives exactly v*1 ms, and re-encoding the decoded Duration gives v again
//@ covers: 1
//@ timeout: 900
#[kani::proof]
fn c15_duration_read_u32_1() {
    read_u32_1()
}

//@ id: duration_write_u32_10
//@ prop: C15
//@ functions: insim_core/src/duration.rs binrw_write_duration::<u32,10>
//@ statement: for ALL Durations (u64 secs x nanos < 1e9): the write is Ok iff floor(ms/10) <= u32::MAX, and then the little-endian field holds exactly that floor (rounds down to 10 ms); otherwise an error - never a wrapped or different value
//@ covers: 2
//@ timeout: 900
#[kani::proof]
fn c15_duration_write_u32_10() {
    write_u32_10()
}

//@ id: duration_read_u32_10
//@ prop: C15
//@ functions: insim_core/src/duration.rs binrw_parse_duration::<u32,10>; insim_core/src/duration.rs binrw_write_duration::<u32,10>
//@ statement: for ALL u32 wire values v: decoding gives exactly v*10 ms, and re-encoding the decoded Duration gives v again
//@ covers: 1
//@ timeout: 900
#[kani::proof]
fn c15_duration_read_u32_10() {
    read_u32_10()
}
