//! C12: the escape / unescape character tables (private trait Escape: accessors appended
//! to escaping.rs in the scratch copy).
//@inject-into insim_core/src/string/escaping.rs
//@|
//@|#[cfg(kani)]
//@|pub(crate) fn verif_try_lfs_escape(c: char) -> Option<char> {
//@|    c.try_lfs_escape()
//@|}
//@|#[cfg(kani)]
//@|pub(crate) fn verif_try_lfs_unescape(c: char) -> Option<char> {
//@|    c.try_lfs_unescape()
//@|}
use crate::string::{
    colours::Colour,
    escaping::{verif_try_lfs_escape, verif_try_lfs_unescape},
};

fn is_reserved(c: char) -> bool {
    matches!(c, '|' | '*' | ':' | '\\' | '/' | '?' | '"' | '<' | '>' | '#')
}

fn is_codepage_letter(c: char) -> bool {
    matches!(c, 'L' | 'G' | 'C' | 'E' | 'T' | 'B' | 'J' | 'H' | 'S' | 'K' | '8')
}

//@ id: escape_tables
//@ prop: C12
//@ functions: insim_core/src/string/escaping.rs <char as Escape>::try_lfs_escape; insim_core/src/string/escaping.rs <char as Escape>::try_lfs_unescape; insim_core/src/string/colours.rs <char as Colour>::is_lfs_colour
//@ statement: for ALL chars c: escape(c) is defined exactly for the caret and LFS's ten reserved characters | * : \ / ? " < > #; unescape(escape(c)) == c and escape(unescape(d)) == d wherever defined; an escape letter is never a colour digit, a codepage letter or a reserved character, so escaped text contains no raw reserved character and cannot be mistaken for a colour or codepage switch; colour codes are exactly the digits 0-9
//@ covers: 3
#[kani::proof]
fn c12_escape_tables() {
    let c: char = kani::any();
    let e = verif_try_lfs_escape(c);
    let u = verif_try_lfs_unescape(c);
    assert!(e.is_some() == (c == '^' || is_reserved(c)), "escape is defined exactly for ^ and the ten reserved characters");
    if let Some(d) = e {
        assert!(verif_try_lfs_unescape(d) == Some(c), "unescape inverts escape");
        if c == '^' {
            assert!(d == '^', "caret escapes to caret");
        } else {
            assert!(d.is_ascii_lowercase(), "escape letters are lower-case ASCII");
            assert!(!d.is_lfs_colour() && !is_codepage_letter(d) && !is_reserved(d) && d != '^',
                "an escape letter is not a colour digit, codepage letter, reserved character or caret");
        }
    }
    if let Some(o) = u {
        assert!(verif_try_lfs_escape(o) == Some(c), "escape inverts unescape");
        assert!(o == '^' || is_reserved(o), "unescape only produces the caret or a reserved character");
    }
    assert!(c.is_lfs_colour() == (c >= '0' && c <= '9'), "colour codes are exactly ^0..^9");
    kani::cover!(e.is_some() && c != '^', "reserved character");
    kani::cover!(u.is_some() && c != '^', "escape letter");
    kani::cover!(c.is_lfs_colour(), "colour digit");
}
