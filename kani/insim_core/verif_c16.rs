//! C16: GameVersion ordering / equality axioms on everything the parser can produce.
use std::cmp::Ordering;

use crate::game_version::GameVersion;

/// A version the parser can produce: `major` comes from str::parse::<f32> on a string of
/// digits and dots (never NaN, never negative, sign bit clear); `minor` is an upper-case
/// ASCII letter; `patch` is None or Some(n).
fn any_parsed_version() -> GameVersion {
    let major: f32 = kani::any();
    kani::assume(!major.is_nan() && major.is_sign_positive());
    let minor_b: u8 = kani::any();
    kani::assume(minor_b >= b'A' && minor_b <= b'Z');
    let patch: Option<usize> = if kani::any() { Some(kani::any()) } else { None };
    GameVersion { major, minor: minor_b as char, patch }
}

//@ id: version_order
//@ prop: C16
//@ functions: insim_core/src/game_version.rs <GameVersion as Ord>::cmp; insim_core/src/game_version.rs <GameVersion as PartialEq>::eq; insim_core/src/game_version.rs <GameVersion as PartialOrd>::partial_cmp
//@ statement: for ALL triples (a,b,c) of versions the parser can produce (any non-NaN non-negative f32 number, letter A-Z, revision None or any usize): cmp is reflexive, antisymmetric, transitive and total; cmp == Equal <=> eq; partial_cmp == Some(cmp); the order is number, then letter, then revision with a missing revision counting as 0
//@ covers: 3
//@ timeout: 900
#[kani::proof]
fn c16_version_order() {
    let a = any_parsed_version();
    let b = any_parsed_version();
    let c = any_parsed_version();
    let ab = a.cmp(&b);
    let ba = b.cmp(&a);
    let bc = b.cmp(&c);
    let ac = a.cmp(&c);
    assert!(a.cmp(&a) == Ordering::Equal, "reflexive");
    assert!(ab == ba.reverse(), "antisymmetric / total");
    if ab != Ordering::Greater && bc != Ordering::Greater {
        assert!(ac != Ordering::Greater, "transitive (<=)");
    }
    if ab == Ordering::Equal && bc == Ordering::Equal {
        assert!(ac == Ordering::Equal, "transitive (==)");
    }
    assert!((ab == Ordering::Equal) == (a == b), "cmp == Equal <=> eq");
    assert!(a.partial_cmp(&b) == Some(ab), "partial_cmp agrees with cmp");
    // lexicographic: number, then letter, then revision-or-0
    let pa = a.patch.unwrap_or(0);
    let pb = b.patch.unwrap_or(0);
    let expect = if a.major < b.major {
        Ordering::Less
    } else if a.major > b.major {
        Ordering::Greater
    } else if a.minor < b.minor {
        Ordering::Less
    } else if a.minor > b.minor {
        Ordering::Greater
    } else if pa < pb {
        Ordering::Less
    } else if pa > pb {
        Ordering::Greater
    } else {
        Ordering::Equal
    };
    assert!(ab == expect, "order is number, then letter, then revision (missing = 0)");
    kani::cover!(ab == Ordering::Less, "less");
    kani::cover!(ab == Ordering::Equal && a.patch.is_none() && b.patch == Some(0), "missing revision equals revision 0");
    kani::cover!(ab == Ordering::Greater && a.major == b.major && a.minor == b.minor, "decided by revision");
}

//@ id: version_default_shape
//@ prop: C16
//@ functions: insim_core/src/game_version.rs <GameVersion as Default>::default
//@ statement: the value the parser starts from (and returns for a string that stops after the number) has the shape the printer/parser pair can round-trip: a finite non-negative number, a letter A-Z, no revision
#[kani::proof]
fn c16_version_default_shape() {
    let d = GameVersion::default();
    assert!(d.major.is_finite() && d.major >= 0.0 && d.major.is_sign_positive(), "default number is finite and non-negative");
    assert!(d.minor.is_ascii_uppercase(), "default letter is A-Z (a version printed with it parses back)");
    assert!(d.patch.is_none(), "default has no revision");
}
