//! C14: Track table coherent: code, wire bytes, flags and licence agree.
use std::io::Cursor;

use binrw::{BinRead, BinWrite};

use crate::track::Track;

fn last_letter(b: &[u8; 6]) -> u8 {
    let mut last = 0u8;
    let mut i = 0;
    while i < 6 {
        if b[i] != 0 {
            last = b[i];
        }
        i += 1;
    }
    last
}

//@ id: track_bytes
//@ prop: C14
//@ tier: thorough
//@ functions: insim_core/src/track.rs <Track as BinRead>::read_options; insim_core/src/track.rs <Track as BinWrite>::write_options; insim_core/src/track.rs Track::is_reverse; insim_core/src/track.rs Track::is_open; insim_core/src/track.rs Track::distance_mile; insim_core/src/track.rs Track::distance_km
//@ statement: for ALL 2^48 values b of the 6 wire bytes: if b decodes to a configuration t then t re-encodes to exactly b (so no other 6-byte value decodes to t), is_reverse(t) <=> the last letter of b is R or Y, is_open(t) <=> the last letter is X or Y, and an open configuration has no lap distance
//@ covers: 2
//@ timeout: 1500
#[kani::proof]
fn c14_track_bytes() {
    let b: [u8; 6] = kani::any();
    let mut c = Cursor::new(&b[..]);
    let r = Track::read_le(&mut c);
    if let Ok(t) = &r {
        let mut w = Cursor::new(Vec::new());
        let wr = t.write_le(&mut w);
        assert!(wr.is_ok(), "decoded track re-encodes");
        let out = w.into_inner();
        assert!(out.len() == 6, "wire form is 6 bytes");
        assert!(out[0] == b[0] && out[1] == b[1] && out[2] == b[2] && out[3] == b[3] && out[4] == b[4] && out[5] == b[5],
            "re-encodes to the identical 6 bytes");
        let last = last_letter(&b);
        assert!(t.is_reverse() == (last == b'R' || last == b'Y'), "reversed <=> code ends in R or Y");
        assert!(t.is_open() == (last == b'X' || last == b'Y'), "open <=> code ends in X or Y");
        if t.is_open() {
            assert!(t.distance_mile().is_none(), "open configurations have no lap distance (miles)");
            assert!(t.distance_km().is_none(), "open configurations have no lap distance (km)");
        }
        core::mem::forget(wr);
    }
    kani::cover!(matches!(&r, Ok(t) if t.is_open()), "open configuration decoded");
    kani::cover!(r.is_err(), "unknown code refused");
    core::mem::forget(r);
}

//@ id: track_code
//@ prop: C14
//@ functions: insim_core/src/track.rs Track::code; insim_core/src/track.rs <Track as BinRead>::read_options; insim_core/src/track.rs Track::is_reverse; insim_core/src/track.rs Track::is_open; insim_core/src/track.rs Track::distance_mile
//@ statement: for ALL 2^48 values b of the 6 wire bytes: if b decodes to t then t.code() NUL-padded to 6 bytes equals b (the wire form is the short code, hence no other 6-byte value decodes to t); t is reversed exactly when the code ends in R or Y, open exactly when it ends in X or Y, and an open configuration has no lap distance
//@ covers: 1
//@ timeout: 1500
#[kani::proof]
fn c14_track_code() {
    let b: [u8; 6] = kani::any();
    let mut c = Cursor::new(&b[..]);
    let r = Track::read_le(&mut c);
    if let Ok(t) = &r {
        let code = t.code();
        let cb = code.as_bytes();
        assert!(cb.len() >= 3 && cb.len() <= 5, "short code is 3..=5 characters");
        let mut i = 0;
        while i < 6 {
            let expect = if i < cb.len() { cb[i] } else { 0 };
            assert!(b[i] == expect, "wire form is the short code NUL-padded to 6 bytes");
            i += 1;
        }
        let last = cb[cb.len() - 1];
        assert!(t.is_reverse() == (last == b'R' || last == b'Y'), "reversed <=> code ends in R or Y");
        assert!(t.is_open() == (last == b'X' || last == b'Y'), "open <=> code ends in X or Y");
        if t.is_open() {
            assert!(t.distance_mile().is_none() && t.distance_km().is_none(), "open configurations have no lap distance");
        }
        core::mem::forget(code);
    }
    kani::cover!(r.is_ok(), "decoded");
    core::mem::forget(r);
}

//@ id: track_licence
//@ prop: C14
//@ functions: insim_core/src/track.rs Track::license; insim_core/src/track.rs <Track as BinRead>::read_options
//@ statement: for ALL pairs of decodable 6-byte values whose first two bytes (the track area) agree: both configurations require the same licence
//@ covers: 1
//@ timeout: 1800
#[kani::proof]
fn c14_track_licence() {
    let b1: [u8; 6] = kani::any();
    let rest: [u8; 4] = kani::any();
    let b2: [u8; 6] = [b1[0], b1[1], rest[0], rest[1], rest[2], rest[3]];
    let mut c1 = Cursor::new(&b1[..]);
    let mut c2 = Cursor::new(&b2[..]);
    let r1 = Track::read_le(&mut c1);
    let r2 = Track::read_le(&mut c2);
    if let (Ok(t1), Ok(t2)) = (&r1, &r2) {
        assert!(t1.license() == t2.license(), "every configuration of one track area requires the same licence");
    }
    kani::cover!(r1.is_ok() && r2.is_ok() && b1[2] != b2[2], "two different configurations of one area");
    core::mem::forget(r1);
    core::mem::forget(r2);
}
