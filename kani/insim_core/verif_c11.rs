//! C11: NUL stripping used by every text-field reader.
use crate::string::strip_trailing_nul;

//@ id: strip_first_nul
//@ prop: C11
//@ functions: insim_core/src/string/mod.rs strip_trailing_nul
//@ statement: for every byte slice of length 0..=8 with arbitrary content: the result is the prefix before the first NUL byte, or the whole slice when there is none (decoding a text field stops at the first NUL)
//@ bounded: slice length <= 8 (arbitrary content); longer fields use the same loop
//@ covers: 2
#[kani::proof]
#[kani::unwind(10)]
fn c11_strip_first_nul() {
    let data: [u8; 8] = kani::any();
    let len: usize = kani::any();
    kani::assume(len <= 8);
    let s = &data[..len];
    let r = strip_trailing_nul(s);
    let mut first = len;
    let mut i = len;
    while i > 0 {
        i -= 1;
        if s[i] == 0 {
            first = i;
        }
    }
    assert!(r.len() == first, "stops at the first NUL");
    let mut j = 0;
    while j < r.len() {
        assert!(r[j] == s[j] && r[j] != 0, "result is the NUL-free prefix");
        j += 1;
    }
    kani::cover!(first < len && first > 0, "NUL in the middle");
    kani::cover!(first == len && len == 8, "no NUL at all");
}

use std::io::Cursor;

use binrw::Endian;

use crate::string::binrw_write_codepage_string;

fn verif_fmt_ok(_o: &mut dyn core::fmt::Write, _a: core::fmt::Arguments<'_>) -> core::fmt::Result {
    Ok(())
}

/// ASCII text of length `len` (content 'a'..): encoded length == character count.
fn text(len: usize) -> String {
    "a".repeat(len)
}

/// Fixed-width field: exactly N bytes = text truncated to N, then NULs.
fn check_fixed<const N: usize>(len: usize, raw: bool) {
    let s = text(len);
    let mut w = Cursor::new(Vec::new());
    let r = binrw_write_codepage_string::<N, _>(&s, &mut w, Endian::Little, (raw, 0));
    assert!(r.is_ok(), "text field encodes");
    let out = w.into_inner();
    assert!(out.len() == N, "a fixed-width text field occupies exactly its N bytes");
    let keep = if len < N { len } else { N };
    let sb = s.as_bytes();
    let mut i = 0;
    while i < N {
        if i < keep {
            assert!(out[i] == sb[i], "the text, truncated to the field width");
        } else {
            assert!(out[i] == 0, "NUL padding after the text");
        }
        i += 1;
    }
    core::mem::forget(r);
}

/// Variable-width message field: NUL-padded to a multiple of 4, never more than N.
fn check_aligned<const N: usize>(len: usize) {
    let s = text(len);
    let mut w = Cursor::new(Vec::new());
    let r = binrw_write_codepage_string::<N, _>(&s, &mut w, Endian::Little, (false, 4));
    assert!(r.is_ok(), "text field encodes");
    let out = w.into_inner();
    assert!(out.len() % 4 == 0, "a variable-width text field is padded to a multiple of 4");
    assert!(out.len() <= N, "a variable-width text field never exceeds its maximum");
    let keep = if len < N { len } else { N };
    assert!(out.len() >= keep && out.len() < keep + 4, "no more padding than needed");
    let sb = s.as_bytes();
    let mut i = 0;
    while i < out.len() {
        if i < keep {
            assert!(out[i] == sb[i], "the text, truncated to the maximum");
        } else {
            assert!(out[i] == 0, "NUL padding after the text");
        }
        i += 1;
    }
    core::mem::forget(r);
}

/// The free-text packets sent to LFS must end in a NUL byte.
fn check_terminated_fixed<const N: usize>(len: usize) {
    let s = text(len);
    let mut w = Cursor::new(Vec::new());
    let r = binrw_write_codepage_string::<N, _>(&s, &mut w, Endian::Little, (false, 0));
    let out = w.into_inner();
    assert!(out.len() > 0 && out[out.len() - 1] == 0, "free-text field ends in a NUL byte");
    core::mem::forget(r);
}

fn check_terminated_aligned<const N: usize>(len: usize) {
    let s = text(len);
    let mut w = Cursor::new(Vec::new());
    let r = binrw_write_codepage_string::<N, _>(&s, &mut w, Endian::Little, (false, 4));
    let out = w.into_inner();
    assert!(out.len() > 0 && out[out.len() - 1] == 0, "free-text field ends in a NUL byte");
    core::mem::forget(r);
}

//@ id: text_fixed_6_q0
//@ prop: C11
//@ tier: quick
//@ functions: insim_core/src/string/mod.rs binrw_write_codepage_string::<6>
//@ statement: fixed-width text field of width 6, ASCII text of lengths [0, 1, 5, 6, 7]: the field occupies exactly 6 bytes = the text truncated to 6, then NUL padding
//@ bounded: text lengths [0, 1, 5, 6, 7] enumerated concretely, ASCII content (encoded length == character count)
//@ timeout: 1200
#[kani::proof]
#[kani::stub(core::fmt::write, verif_fmt_ok)]
fn c11_text_fixed_6_q0() {
    for len in [0, 1, 5, 6, 7] {
        check_fixed::<6>(len, false);
    }
}

//@ id: text_fixed_8_q0
//@ prop: C11
//@ tier: quick
//@ functions: insim_core/src/string/mod.rs binrw_write_codepage_string::<8>
//@ statement: fixed-width text field of width 8, ASCII text of lengths [0, 1, 7, 8, 9]: the field occupies exactly 8 bytes = the text truncated to 8, then NUL padding
//@ bounded: text lengths [0, 1, 7, 8, 9] enumerated concretely, ASCII content (encoded length == character count)
//@ timeout: 1200
#[kani::proof]
#[kani::stub(core::fmt::write, verif_fmt_ok)]
fn c11_text_fixed_8_q0() {
    for len in [0, 1, 7, 8, 9] {
        check_fixed::<8>(len, false);
    }
}

//@ id: text_fixed_16_q0
//@ prop: C11
//@ tier: quick
//@ functions: insim_core/src/string/mod.rs binrw_write_codepage_string::<16>
//@ statement: fixed-width text field of width 16, ASCII text of lengths [0, 1, 15, 16, 17]: the field occupies exactly 16 bytes = the text truncated to 16, then NUL padding (also in raw mode, as used for the ISI admin password)
//@ bounded: text lengths [0, 1, 15, 16, 17] enumerated concretely, ASCII content (encoded length == character count)
//@ timeout: 1200
#[kani::proof]
#[kani::stub(core::fmt::write, verif_fmt_ok)]
fn c11_text_fixed_16_q0() {
    for len in [0, 1, 15, 16, 17] {
        check_fixed::<16>(len, false);
        check_fixed::<16>(len, true);
    }
}

//@ id: text_fixed_24_q0
//@ prop: C11
//@ tier: quick
//@ functions: insim_core/src/string/mod.rs binrw_write_codepage_string::<24>
//@ statement: fixed-width text field of width 24, ASCII text of lengths [0, 1, 23, 24, 25]: the field occupies exactly 24 bytes = the text truncated to 24, then NUL padding
//@ bounded: text lengths [0, 1, 23, 24, 25] enumerated concretely, ASCII content (encoded length == character count)
//@ timeout: 1200
#[kani::proof]
#[kani::stub(core::fmt::write, verif_fmt_ok)]
fn c11_text_fixed_24_q0() {
    for len in [0, 1, 23, 24, 25] {
        check_fixed::<24>(len, false);
    }
}

//@ id: text_fixed_32_q0
//@ prop: C11
//@ tier: quick
//@ functions: insim_core/src/string/mod.rs binrw_write_codepage_string::<32>
//@ statement: fixed-width text field of width 32, ASCII text of lengths [0, 1, 31, 32, 33]: the field occupies exactly 32 bytes = the text truncated to 32, then NUL padding
//@ bounded: text lengths [0, 1, 31, 32, 33] enumerated concretely, ASCII content (encoded length == character count)
//@ timeout: 1200
#[kani::proof]
#[kani::stub(core::fmt::write, verif_fmt_ok)]
fn c11_text_fixed_32_q0() {
    for len in [0, 1, 31, 32, 33] {
        check_fixed::<32>(len, false);
    }
}

//@ id: text_fixed_8_all0
//@ prop: C11
//@ tier: quick
//@ functions: insim_core/src/string/mod.rs binrw_write_codepage_string::<8>
//@ statement: fixed-width text field of width 8, ASCII text of lengths [2, 3, 4, 5, 6]: the field occupies exactly 8 bytes = the text truncated to 8, then NUL padding
//@ bounded: text lengths [2, 3, 4, 5, 6] enumerated concretely, ASCII content (encoded length == character count)
//@ timeout: 1200
#[kani::proof]
#[kani::stub(core::fmt::write, verif_fmt_ok)]
fn c11_text_fixed_8_all0() {
    for len in [2, 3, 4, 5, 6] {
        check_fixed::<8>(len, false);
    }
}

//@ id: text_fixed_8_all1
//@ prop: C11
//@ tier: quick
//@ functions: insim_core/src/string/mod.rs binrw_write_codepage_string::<8>
//@ statement: fixed-width text field of width 8, ASCII text of lengths [10, 11, 12, 13, 14]: the field occupies exactly 8 bytes = the text truncated to 8, then NUL padding
//@ bounded: text lengths [10, 11, 12, 13, 14] enumerated concretely, ASCII content (encoded length == character count)
//@ timeout: 1200
#[kani::proof]
#[kani::stub(core::fmt::write, verif_fmt_ok)]
fn c11_text_fixed_8_all1() {
    for len in [10, 11, 12, 13, 14] {
        check_fixed::<8>(len, false);
    }
}

//@ id: text_fixed_8_all2
//@ prop: C11
//@ tier: quick
//@ functions: insim_core/src/string/mod.rs binrw_write_codepage_string::<8>
//@ statement: fixed-width text field of width 8, ASCII text of lengths [15, 16, 17]: the field occupies exactly 8 bytes = the text truncated to 8, then NUL padding
//@ bounded: text lengths [15, 16, 17] enumerated concretely, ASCII content (encoded length == character count)
//@ timeout: 1200
#[kani::proof]
#[kani::stub(core::fmt::write, verif_fmt_ok)]
fn c11_text_fixed_8_all2() {
    for len in [15, 16, 17] {
        check_fixed::<8>(len, false);
    }
}

//@ id: text_fixed_64_q0
//@ prop: C11
//@ tier: quick
//@ functions: insim_core/src/string/mod.rs binrw_write_codepage_string::<64>
//@ statement: fixed-width text field of width 64, ASCII text of lengths [0, 1, 2, 3, 4]: the field occupies exactly 64 bytes = the text truncated to 64, then NUL padding
//@ bounded: text lengths [0, 1, 2, 3, 4] enumerated concretely, ASCII content (encoded length == character count)
//@ timeout: 1200
#[kani::proof]
#[kani::stub(core::fmt::write, verif_fmt_ok)]
fn c11_text_fixed_64_q0() {
    for len in [0, 1, 2, 3, 4] {
        check_fixed::<64>(len, false);
    }
}

//@ id: text_fixed_96_q0
//@ prop: C11
//@ tier: quick
//@ functions: insim_core/src/string/mod.rs binrw_write_codepage_string::<96>
//@ statement: fixed-width text field of width 96, ASCII text of lengths [0, 1, 2, 3, 4]: the field occupies exactly 96 bytes = the text truncated to 96, then NUL padding
//@ bounded: text lengths [0, 1, 2, 3, 4] enumerated concretely, ASCII content (encoded length == character count)
//@ timeout: 1200
#[kani::proof]
#[kani::stub(core::fmt::write, verif_fmt_ok)]
fn c11_text_fixed_96_q0() {
    for len in [0, 1, 2, 3, 4] {
        check_fixed::<96>(len, false);
    }
}

//@ id: text_fixed_128_q0
//@ prop: C11
//@ tier: quick
//@ functions: insim_core/src/string/mod.rs binrw_write_codepage_string::<128>
//@ statement: fixed-width text field of width 128, ASCII text of lengths [0, 1, 2, 3, 4]: the field occupies exactly 128 bytes = the text truncated to 128, then NUL padding
//@ bounded: text lengths [0, 1, 2, 3, 4] enumerated concretely, ASCII content (encoded length == character count)
//@ timeout: 1200
#[kani::proof]
#[kani::stub(core::fmt::write, verif_fmt_ok)]
fn c11_text_fixed_128_q0() {
    for len in [0, 1, 2, 3, 4] {
        check_fixed::<128>(len, false);
    }
}

//@ id: text_fixed_240_q0
//@ prop: C11
//@ tier: quick
//@ functions: insim_core/src/string/mod.rs binrw_write_codepage_string::<240>
//@ statement: fixed-width text field of width 240, ASCII text of lengths [0, 1, 2, 3, 4]: the field occupies exactly 240 bytes = the text truncated to 240, then NUL padding
//@ bounded: text lengths [0, 1, 2, 3, 4] enumerated concretely, ASCII content (encoded length == character count)
//@ timeout: 1200
#[kani::proof]
#[kani::stub(core::fmt::write, verif_fmt_ok)]
fn c11_text_fixed_240_q0() {
    for len in [0, 1, 2, 3, 4] {
        check_fixed::<240>(len, false);
    }
}

//@ id: text_aligned_64_qa0
//@ prop: C11
//@ tier: quick
//@ functions: insim_core/src/string/mod.rs binrw_write_codepage_string::<64>
//@ statement: variable-width message field of maximum 64 (aligned to 4), ASCII text of lengths [0, 1, 2, 3, 4]: the field is the text (truncated to 64) NUL-padded to a multiple of 4, never longer than 64, with less than 4 bytes of padding
//@ bounded: text lengths [0, 1, 2, 3, 4] enumerated concretely, ASCII content
//@ timeout: 1200
#[kani::proof]
#[kani::stub(core::fmt::write, verif_fmt_ok)]
fn c11_text_aligned_64_qa0() {
    for len in [0, 1, 2, 3, 4] {
        check_aligned::<64>(len);
    }
}

//@ id: text_aligned_128_qa0
//@ prop: C11
//@ tier: quick
//@ functions: insim_core/src/string/mod.rs binrw_write_codepage_string::<128>
//@ statement: variable-width message field of maximum 128 (aligned to 4), ASCII text of lengths [0, 1, 2, 3, 4]: the field is the text (truncated to 128) NUL-padded to a multiple of 4, never longer than 128, with less than 4 bytes of padding
//@ bounded: text lengths [0, 1, 2, 3, 4] enumerated concretely, ASCII content
//@ timeout: 1200
#[kani::proof]
#[kani::stub(core::fmt::write, verif_fmt_ok)]
fn c11_text_aligned_128_qa0() {
    for len in [0, 1, 2, 3, 4] {
        check_aligned::<128>(len);
    }
}

//@ id: text_aligned_240_qa0
//@ prop: C11
//@ tier: quick
//@ functions: insim_core/src/string/mod.rs binrw_write_codepage_string::<240>
//@ statement: variable-width message field of maximum 240 (aligned to 4), ASCII text of lengths [0, 1, 2, 3, 4]: the field is the text (truncated to 240) NUL-padded to a multiple of 4, never longer than 240, with less than 4 bytes of padding
//@ bounded: text lengths [0, 1, 2, 3, 4] enumerated concretely, ASCII content
//@ timeout: 1200
#[kani::proof]
#[kani::stub(core::fmt::write, verif_fmt_ok)]
fn c11_text_aligned_240_qa0() {
    for len in [0, 1, 2, 3, 4] {
        check_aligned::<240>(len);
    }
}

//@ id: text_aligned_8_small0
//@ prop: C11
//@ tier: quick
//@ functions: insim_core/src/string/mod.rs binrw_write_codepage_string::<8>
//@ statement: variable-width message field of maximum 8 (aligned to 4), ASCII text of lengths [0, 1, 2, 3, 4]: the field is the text (truncated to 8) NUL-padded to a multiple of 4, never longer than 8, with less than 4 bytes of padding
//@ bounded: text lengths [0, 1, 2, 3, 4] enumerated concretely, ASCII content
//@ timeout: 1200
#[kani::proof]
#[kani::stub(core::fmt::write, verif_fmt_ok)]
fn c11_text_aligned_8_small0() {
    for len in [0, 1, 2, 3, 4] {
        check_aligned::<8>(len);
    }
}

//@ id: text_aligned_8_small1
//@ prop: C11
//@ tier: quick
//@ functions: insim_core/src/string/mod.rs binrw_write_codepage_string::<8>
//@ statement: variable-width message field of maximum 8 (aligned to 4), ASCII text of lengths [5, 6, 7, 8, 9]: the field is the text (truncated to 8) NUL-padded to a multiple of 4, never longer than 8, with less than 4 bytes of padding
//@ bounded: text lengths [5, 6, 7, 8, 9] enumerated concretely, ASCII content
//@ timeout: 1200
#[kani::proof]
#[kani::stub(core::fmt::write, verif_fmt_ok)]
fn c11_text_aligned_8_small1() {
    for len in [5, 6, 7, 8, 9] {
        check_aligned::<8>(len);
    }
}

//@ id: text_aligned_8_small2
//@ prop: C11
//@ tier: quick
//@ functions: insim_core/src/string/mod.rs binrw_write_codepage_string::<8>
//@ statement: variable-width message field of maximum 8 (aligned to 4), ASCII text of lengths [10, 11, 12, 13, 14]: the field is the text (truncated to 8) NUL-padded to a multiple of 4, never longer than 8, with less than 4 bytes of padding
//@ bounded: text lengths [10, 11, 12, 13, 14] enumerated concretely, ASCII content
//@ timeout: 1200
#[kani::proof]
#[kani::stub(core::fmt::write, verif_fmt_ok)]
fn c11_text_aligned_8_small2() {
    for len in [10, 11, 12, 13, 14] {
        check_aligned::<8>(len);
    }
}

//@ id: text_aligned_8_small3
//@ prop: C11
//@ tier: quick
//@ functions: insim_core/src/string/mod.rs binrw_write_codepage_string::<8>
//@ statement: variable-width message field of maximum 8 (aligned to 4), ASCII text of lengths [15, 16, 17]: the field is the text (truncated to 8) NUL-padded to a multiple of 4, never longer than 8, with less than 4 bytes of padding
//@ bounded: text lengths [15, 16, 17] enumerated concretely, ASCII content
//@ timeout: 1200
#[kani::proof]
#[kani::stub(core::fmt::write, verif_fmt_ok)]
fn c11_text_aligned_8_small3() {
    for len in [15, 16, 17] {
        check_aligned::<8>(len);
    }
}

//@ id: text_aligned_16_small0
//@ prop: C11
//@ tier: quick
//@ functions: insim_core/src/string/mod.rs binrw_write_codepage_string::<16>
//@ statement: variable-width message field of maximum 16 (aligned to 4), ASCII text of lengths [13, 14, 15, 16, 17]: the field is the text (truncated to 16) NUL-padded to a multiple of 4, never longer than 16, with less than 4 bytes of padding
//@ bounded: text lengths [13, 14, 15, 16, 17] enumerated concretely, ASCII content
//@ timeout: 1200
#[kani::proof]
#[kani::stub(core::fmt::write, verif_fmt_ok)]
fn c11_text_aligned_16_small0() {
    for len in [13, 14, 15, 16, 17] {
        check_aligned::<16>(len);
    }
}

//@ id: text_aligned_16_small1
//@ prop: C11
//@ tier: quick
//@ functions: insim_core/src/string/mod.rs binrw_write_codepage_string::<16>
//@ statement: variable-width message field of maximum 16 (aligned to 4), ASCII text of lengths [18, 19, 20, 32, 33]: the field is the text (truncated to 16) NUL-padded to a multiple of 4, never longer than 16, with less than 4 bytes of padding
//@ bounded: text lengths [18, 19, 20, 32, 33] enumerated concretely, ASCII content
//@ timeout: 1200
#[kani::proof]
#[kani::stub(core::fmt::write, verif_fmt_ok)]
fn c11_text_aligned_16_small1() {
    for len in [18, 19, 20, 32, 33] {
        check_aligned::<16>(len);
    }
}

//@ id: text_fixed_6_t0
//@ prop: C11
//@ tier: thorough
//@ functions: insim_core/src/string/mod.rs binrw_write_codepage_string::<6>
//@ statement: fixed-width text field of width 6, ASCII text of lengths [2, 3, 4, 8, 9]: the field occupies exactly 6 bytes = the text truncated to 6, then NUL padding
//@ bounded: text lengths [2, 3, 4, 8, 9] enumerated concretely, ASCII content (encoded length == character count)
//@ timeout: 1200
#[kani::proof]
#[kani::stub(core::fmt::write, verif_fmt_ok)]
fn c11_text_fixed_6_t0() {
    for len in [2, 3, 4, 8, 9] {
        check_fixed::<6>(len, false);
    }
}

//@ id: text_fixed_6_t1
//@ prop: C11
//@ tier: thorough
//@ functions: insim_core/src/string/mod.rs binrw_write_codepage_string::<6>
//@ statement: fixed-width text field of width 6, ASCII text of lengths [10, 11, 12, 13]: the field occupies exactly 6 bytes = the text truncated to 6, then NUL padding
//@ bounded: text lengths [10, 11, 12, 13] enumerated concretely, ASCII content (encoded length == character count)
//@ timeout: 1200
#[kani::proof]
#[kani::stub(core::fmt::write, verif_fmt_ok)]
fn c11_text_fixed_6_t1() {
    for len in [10, 11, 12, 13] {
        check_fixed::<6>(len, false);
    }
}

//@ id: text_fixed_16_t0
//@ prop: C11
//@ tier: thorough
//@ functions: insim_core/src/string/mod.rs binrw_write_codepage_string::<16>
//@ statement: fixed-width text field of width 16, ASCII text of lengths [2, 3, 4, 5, 6]: the field occupies exactly 16 bytes = the text truncated to 16, then NUL padding (also in raw mode, as used for the ISI admin password)
//@ bounded: text lengths [2, 3, 4, 5, 6] enumerated concretely, ASCII content (encoded length == character count)
//@ timeout: 1200
#[kani::proof]
#[kani::stub(core::fmt::write, verif_fmt_ok)]
fn c11_text_fixed_16_t0() {
    for len in [2, 3, 4, 5, 6] {
        check_fixed::<16>(len, false);
        check_fixed::<16>(len, true);
    }
}

//@ id: text_fixed_16_t1
//@ prop: C11
//@ tier: thorough
//@ functions: insim_core/src/string/mod.rs binrw_write_codepage_string::<16>
//@ statement: fixed-width text field of width 16, ASCII text of lengths [7, 8, 9, 10, 11]: the field occupies exactly 16 bytes = the text truncated to 16, then NUL padding (also in raw mode, as used for the ISI admin password)
//@ bounded: text lengths [7, 8, 9, 10, 11] enumerated concretely, ASCII content (encoded length == character count)
//@ timeout: 1200
#[kani::proof]
#[kani::stub(core::fmt::write, verif_fmt_ok)]
fn c11_text_fixed_16_t1() {
    for len in [7, 8, 9, 10, 11] {
        check_fixed::<16>(len, false);
        check_fixed::<16>(len, true);
    }
}

//@ id: text_fixed_16_t2
//@ prop: C11
//@ tier: thorough
//@ functions: insim_core/src/string/mod.rs binrw_write_codepage_string::<16>
//@ statement: fixed-width text field of width 16, ASCII text of lengths [12, 13, 14, 18, 19]: the field occupies exactly 16 bytes = the text truncated to 16, then NUL padding (also in raw mode, as used for the ISI admin password)
//@ bounded: text lengths [12, 13, 14, 18, 19] enumerated concretely, ASCII content (encoded length == character count)
//@ timeout: 1200
#[kani::proof]
#[kani::stub(core::fmt::write, verif_fmt_ok)]
fn c11_text_fixed_16_t2() {
    for len in [12, 13, 14, 18, 19] {
        check_fixed::<16>(len, false);
        check_fixed::<16>(len, true);
    }
}

//@ id: text_fixed_16_t3
//@ prop: C11
//@ tier: thorough
//@ functions: insim_core/src/string/mod.rs binrw_write_codepage_string::<16>
//@ statement: fixed-width text field of width 16, ASCII text of lengths [20, 21, 22, 23, 24]: the field occupies exactly 16 bytes = the text truncated to 16, then NUL padding (also in raw mode, as used for the ISI admin password)
//@ bounded: text lengths [20, 21, 22, 23, 24] enumerated concretely, ASCII content (encoded length == character count)
//@ timeout: 1200
#[kani::proof]
#[kani::stub(core::fmt::write, verif_fmt_ok)]
fn c11_text_fixed_16_t3() {
    for len in [20, 21, 22, 23, 24] {
        check_fixed::<16>(len, false);
        check_fixed::<16>(len, true);
    }
}

//@ id: text_fixed_16_t4
//@ prop: C11
//@ tier: thorough
//@ functions: insim_core/src/string/mod.rs binrw_write_codepage_string::<16>
//@ statement: fixed-width text field of width 16, ASCII text of lengths [25, 26, 27, 28, 29]: the field occupies exactly 16 bytes = the text truncated to 16, then NUL padding (also in raw mode, as used for the ISI admin password)
//@ bounded: text lengths [25, 26, 27, 28, 29] enumerated concretely, ASCII content (encoded length == character count)
//@ timeout: 1200
#[kani::proof]
#[kani::stub(core::fmt::write, verif_fmt_ok)]
fn c11_text_fixed_16_t4() {
    for len in [25, 26, 27, 28, 29] {
        check_fixed::<16>(len, false);
        check_fixed::<16>(len, true);
    }
}

//@ id: text_fixed_16_t5
//@ prop: C11
//@ tier: thorough
//@ functions: insim_core/src/string/mod.rs binrw_write_codepage_string::<16>
//@ statement: fixed-width text field of width 16, ASCII text of lengths [30, 31, 32, 33]: the field occupies exactly 16 bytes = the text truncated to 16, then NUL padding (also in raw mode, as used for the ISI admin password)
//@ bounded: text lengths [30, 31, 32, 33] enumerated concretely, ASCII content (encoded length == character count)
//@ timeout: 1200
#[kani::proof]
#[kani::stub(core::fmt::write, verif_fmt_ok)]
fn c11_text_fixed_16_t5() {
    for len in [30, 31, 32, 33] {
        check_fixed::<16>(len, false);
        check_fixed::<16>(len, true);
    }
}

//@ id: text_fixed_24_t0
//@ prop: C11
//@ tier: thorough
//@ functions: insim_core/src/string/mod.rs binrw_write_codepage_string::<24>
//@ statement: fixed-width text field of width 24, ASCII text of lengths [2, 3, 4, 5, 6]: the field occupies exactly 24 bytes = the text truncated to 24, then NUL padding
//@ bounded: text lengths [2, 3, 4, 5, 6] enumerated concretely, ASCII content (encoded length == character count)
//@ timeout: 1200
#[kani::proof]
#[kani::stub(core::fmt::write, verif_fmt_ok)]
fn c11_text_fixed_24_t0() {
    for len in [2, 3, 4, 5, 6] {
        check_fixed::<24>(len, false);
    }
}

//@ id: text_fixed_24_t1
//@ prop: C11
//@ tier: thorough
//@ functions: insim_core/src/string/mod.rs binrw_write_codepage_string::<24>
//@ statement: fixed-width text field of width 24, ASCII text of lengths [7, 8, 9, 10, 11]: the field occupies exactly 24 bytes = the text truncated to 24, then NUL padding
//@ bounded: text lengths [7, 8, 9, 10, 11] enumerated concretely, ASCII content (encoded length == character count)
//@ timeout: 1200
#[kani::proof]
#[kani::stub(core::fmt::write, verif_fmt_ok)]
fn c11_text_fixed_24_t1() {
    for len in [7, 8, 9, 10, 11] {
        check_fixed::<24>(len, false);
    }
}

//@ id: text_fixed_24_t2
//@ prop: C11
//@ tier: thorough
//@ functions: insim_core/src/string/mod.rs binrw_write_codepage_string::<24>
//@ statement: fixed-width text field of width 24, ASCII text of lengths [12, 13, 14, 15, 16]: the field occupies exactly 24 bytes = the text truncated to 24, then NUL padding
//@ bounded: text lengths [12, 13, 14, 15, 16] enumerated concretely, ASCII content (encoded length == character count)
//@ timeout: 1200
#[kani::proof]
#[kani::stub(core::fmt::write, verif_fmt_ok)]
fn c11_text_fixed_24_t2() {
    for len in [12, 13, 14, 15, 16] {
        check_fixed::<24>(len, false);
    }
}

//@ id: text_fixed_24_t3
//@ prop: C11
//@ tier: thorough
//@ functions: insim_core/src/string/mod.rs binrw_write_codepage_string::<24>
//@ statement: fixed-width text field of width 24, ASCII text of lengths [17, 18, 19, 20, 21]: the field occupies exactly 24 bytes = the text truncated to 24, then NUL padding
//@ bounded: text lengths [17, 18, 19, 20, 21] enumerated concretely, ASCII content (encoded length == character count)
//@ timeout: 1200
#[kani::proof]
#[kani::stub(core::fmt::write, verif_fmt_ok)]
fn c11_text_fixed_24_t3() {
    for len in [17, 18, 19, 20, 21] {
        check_fixed::<24>(len, false);
    }
}

//@ id: text_fixed_24_t4
//@ prop: C11
//@ tier: thorough
//@ functions: insim_core/src/string/mod.rs binrw_write_codepage_string::<24>
//@ statement: fixed-width text field of width 24, ASCII text of lengths [22, 26, 27, 28, 29]: the field occupies exactly 24 bytes = the text truncated to 24, then NUL padding
//@ bounded: text lengths [22, 26, 27, 28, 29] enumerated concretely, ASCII content (encoded length == character count)
//@ timeout: 1200
#[kani::proof]
#[kani::stub(core::fmt::write, verif_fmt_ok)]
fn c11_text_fixed_24_t4() {
    for len in [22, 26, 27, 28, 29] {
        check_fixed::<24>(len, false);
    }
}

//@ id: text_fixed_32_t0
//@ prop: C11
//@ tier: thorough
//@ functions: insim_core/src/string/mod.rs binrw_write_codepage_string::<32>
//@ statement: fixed-width text field of width 32, ASCII text of lengths [2, 3, 4, 5, 6]: the field occupies exactly 32 bytes = the text truncated to 32, then NUL padding
//@ bounded: text lengths [2, 3, 4, 5, 6] enumerated concretely, ASCII content (encoded length == character count)
//@ timeout: 1200
#[kani::proof]
#[kani::stub(core::fmt::write, verif_fmt_ok)]
fn c11_text_fixed_32_t0() {
    for len in [2, 3, 4, 5, 6] {
        check_fixed::<32>(len, false);
    }
}

//@ id: text_fixed_32_t1
//@ prop: C11
//@ tier: thorough
//@ functions: insim_core/src/string/mod.rs binrw_write_codepage_string::<32>
//@ statement: fixed-width text field of width 32, ASCII text of lengths [7, 8, 9, 10, 11]: the field occupies exactly 32 bytes = the text truncated to 32, then NUL padding
//@ bounded: text lengths [7, 8, 9, 10, 11] enumerated concretely, ASCII content (encoded length == character count)
//@ timeout: 1200
#[kani::proof]
#[kani::stub(core::fmt::write, verif_fmt_ok)]
fn c11_text_fixed_32_t1() {
    for len in [7, 8, 9, 10, 11] {
        check_fixed::<32>(len, false);
    }
}

//@ id: text_fixed_32_t2
//@ prop: C11
//@ tier: thorough
//@ functions: insim_core/src/string/mod.rs binrw_write_codepage_string::<32>
//@ statement: fixed-width text field of width 32, ASCII text of lengths [12, 13, 14, 15, 16]: the field occupies exactly 32 bytes = the text truncated to 32, then NUL padding
//@ bounded: text lengths [12, 13, 14, 15, 16] enumerated concretely, ASCII content (encoded length == character count)
//@ timeout: 1200
#[kani::proof]
#[kani::stub(core::fmt::write, verif_fmt_ok)]
fn c11_text_fixed_32_t2() {
    for len in [12, 13, 14, 15, 16] {
        check_fixed::<32>(len, false);
    }
}

//@ id: text_fixed_32_t3
//@ prop: C11
//@ tier: thorough
//@ functions: insim_core/src/string/mod.rs binrw_write_codepage_string::<32>
//@ statement: fixed-width text field of width 32, ASCII text of lengths [17, 18, 19, 20, 21]: the field occupies exactly 32 bytes = the text truncated to 32, then NUL padding
//@ bounded: text lengths [17, 18, 19, 20, 21] enumerated concretely, ASCII content (encoded length == character count)
//@ timeout: 1200
#[kani::proof]
#[kani::stub(core::fmt::write, verif_fmt_ok)]
fn c11_text_fixed_32_t3() {
    for len in [17, 18, 19, 20, 21] {
        check_fixed::<32>(len, false);
    }
}

//@ id: text_fixed_32_t4
//@ prop: C11
//@ tier: thorough
//@ functions: insim_core/src/string/mod.rs binrw_write_codepage_string::<32>
//@ statement: fixed-width text field of width 32, ASCII text of lengths [22, 23, 24, 25, 26]: the field occupies exactly 32 bytes = the text truncated to 32, then NUL padding
//@ bounded: text lengths [22, 23, 24, 25, 26] enumerated concretely, ASCII content (encoded length == character count)
//@ timeout: 1200
#[kani::proof]
#[kani::stub(core::fmt::write, verif_fmt_ok)]
fn c11_text_fixed_32_t4() {
    for len in [22, 23, 24, 25, 26] {
        check_fixed::<32>(len, false);
    }
}

//@ id: text_fixed_32_t5
//@ prop: C11
//@ tier: thorough
//@ functions: insim_core/src/string/mod.rs binrw_write_codepage_string::<32>
//@ statement: fixed-width text field of width 32, ASCII text of lengths [27, 28, 29, 30, 34]: the field occupies exactly 32 bytes = the text truncated to 32, then NUL padding
//@ bounded: text lengths [27, 28, 29, 30, 34] enumerated concretely, ASCII content (encoded length == character count)
//@ timeout: 1200
#[kani::proof]
#[kani::stub(core::fmt::write, verif_fmt_ok)]
fn c11_text_fixed_32_t5() {
    for len in [27, 28, 29, 30, 34] {
        check_fixed::<32>(len, false);
    }
}

//@ id: text_fixed_32_t6
//@ prop: C11
//@ tier: thorough
//@ functions: insim_core/src/string/mod.rs binrw_write_codepage_string::<32>
//@ statement: fixed-width text field of width 32, ASCII text of lengths [35, 36, 37]: the field occupies exactly 32 bytes = the text truncated to 32, then NUL padding
//@ bounded: text lengths [35, 36, 37] enumerated concretely, ASCII content (encoded length == character count)
//@ timeout: 1200
#[kani::proof]
#[kani::stub(core::fmt::write, verif_fmt_ok)]
fn c11_text_fixed_32_t6() {
    for len in [35, 36, 37] {
        check_fixed::<32>(len, false);
    }
}

//@ id: terminated_mst_short
//@ prop: C11
//@ functions: insim_core/src/string/mod.rs binrw_write_codepage_string::<64>
//@ statement: the text field of MST (width 64, fixed) ends in a NUL byte for ASCII text of lengths [0, 1, 2, 3]
//@ bounded: text lengths [0, 1, 2, 3] enumerated concretely
//@ timeout: 1200
#[kani::proof]
#[kani::stub(core::fmt::write, verif_fmt_ok)]
fn c11_terminated_mst_short() {
    for len in [0, 1, 2, 3] {
        check_terminated_fixed::<64>(len);
    }
}

//@ id: terminated_mst_full
//@ prop: C11
//@ functions: insim_core/src/string/mod.rs binrw_write_codepage_string::<64>
//@ statement: the text field of MST (width 64, fixed) ends in a NUL byte for ASCII text of lengths [64, 65] - the lengths that leave no room for a terminator
//@ bounded: text lengths [64, 65] enumerated concretely
//@ timeout: 1200
#[kani::proof]
#[kani::stub(core::fmt::write, verif_fmt_ok)]
fn c11_terminated_mst_full() {
    for len in [64, 65] {
        check_terminated_fixed::<64>(len);
    }
}

//@ id: terminated_msx_short
//@ prop: C11
//@ functions: insim_core/src/string/mod.rs binrw_write_codepage_string::<96>
//@ statement: the text field of MSX (width 96, fixed) ends in a NUL byte for ASCII text of lengths [0, 1, 2, 3]
//@ bounded: text lengths [0, 1, 2, 3] enumerated concretely
//@ timeout: 1200
#[kani::proof]
#[kani::stub(core::fmt::write, verif_fmt_ok)]
fn c11_terminated_msx_short() {
    for len in [0, 1, 2, 3] {
        check_terminated_fixed::<96>(len);
    }
}

//@ id: terminated_msl_short
//@ prop: C11
//@ functions: insim_core/src/string/mod.rs binrw_write_codepage_string::<128>
//@ statement: the text field of MSL (width 128, fixed) ends in a NUL byte for ASCII text of lengths [0, 1, 2, 3]
//@ bounded: text lengths [0, 1, 2, 3] enumerated concretely
//@ timeout: 1200
#[kani::proof]
#[kani::stub(core::fmt::write, verif_fmt_ok)]
fn c11_terminated_msl_short() {
    for len in [0, 1, 2, 3] {
        check_terminated_fixed::<128>(len);
    }
}

//@ id: terminated_mtc_short
//@ prop: C11
//@ functions: insim_core/src/string/mod.rs binrw_write_codepage_string::<128>
//@ statement: the text field of MTC (width 128, aligned) ends in a NUL byte for ASCII text of lengths [1, 2, 3, 5]
//@ bounded: text lengths [1, 2, 3, 5] enumerated concretely
//@ timeout: 1200
#[kani::proof]
#[kani::stub(core::fmt::write, verif_fmt_ok)]
fn c11_terminated_mtc_short() {
    for len in [1, 2, 3, 5] {
        check_terminated_aligned::<128>(len);
    }
}

//@ id: terminated_mtc_full
//@ prop: C11
//@ functions: insim_core/src/string/mod.rs binrw_write_codepage_string::<128>
//@ statement: the text field of MTC (width 128, aligned) ends in a NUL byte for ASCII text of lengths [4, 8, 128] - the lengths that leave no room for a terminator
//@ bounded: text lengths [4, 8, 128] enumerated concretely
//@ timeout: 1200
#[kani::proof]
#[kani::stub(core::fmt::write, verif_fmt_ok)]
fn c11_terminated_mtc_full() {
    for len in [4, 8, 128] {
        check_terminated_aligned::<128>(len);
    }
}

//@ id: terminated_mtc_empty
//@ prop: C11
//@ functions: insim_core/src/string/mod.rs binrw_write_codepage_string::<128>
//@ statement: the text field of MTC (width 128, aligned) ends in a NUL byte for ASCII text of lengths [0] - the lengths that leave no room for a terminator
//@ bounded: text lengths [0] enumerated concretely
//@ timeout: 1200
#[kani::proof]
#[kani::stub(core::fmt::write, verif_fmt_ok)]
fn c11_terminated_mtc_empty() {
    for len in [0] {
        check_terminated_aligned::<128>(len);
    }
}
