//! C11: NUL stripping used by every text-field reader.
use crate::string::strip_trailing_nul;

//@ id: strip_first_nul
//@ prop: C11
//@ functions: insim_core/src/string/mod.rs strip_trailing_nul
//@ statement: for every byte slice of length 0..=8 with arbitrary content: the result is the prefix before the first NUL byte, or the whole slice when there is none (decoding a text field stops at the first NUL)
//@ bounded: slice length <= 8 (arbitrary content); longer fields use the same loop
//@ covers: 2
#[kani::proof]
#[kani::unwind(10)]
fn c11_strip_first_nul() {
    let data: [u8; 8] = kani::any();
    let len: usize = kani::any();
    kani::assume(len <= 8);
    let s = &data[..len];
    let r = strip_trailing_nul(s);
    let mut first = len;
    let mut i = len;
    while i > 0 {
        i -= 1;
        if s[i] == 0 {
            first = i;
        }
    }
    assert!(r.len() == first, "stops at the first NUL");
    let mut j = 0;
    while j < r.len() {
        assert!(r[j] == s[j] && r[j] != 0, "result is the NUL-free prefix");
        j += 1;
    }
    kani::cover!(first < len && first > 0, "NUL in the middle");
    kani::cover!(first == len && len == 8, "no NUL at all");
}
