//! C11: NUL stripping used by every text-field reader.
use crate::string::strip_trailing_nul;

//@ id: strip_first_nul
//@ prop: C11
//@ functions: insim_core/src/string/mod.rs strip_trailing_nul
//@ statement: for every byte slice of length 0..=8 with arbitrary content: the result is the prefix before the first NUL byte, or the whole slice when there is none (decoding a text field stops at the first NUL)
//@ bounded: slice length <= 8 (arbitrary content); longer fields use the same loop
//@ covers: 2
#[kani::proof]
#[kani::unwind(10)]
fn c11_strip_first_nul() {
    let data: [u8; 8] = kani::any();
    let len: usize = kani::any();
    kani::assume(len <= 8);
    let s = &data[..len];
    let r = strip_trailing_nul(s);
    let mut first = len;
    let mut i = len;
    while i > 0 {
        i -= 1;
        if s[i] == 0 {
            first = i;
        }
    }
    assert!(r.len() == first, "stops at the first NUL");
    let mut j = 0;
    while j < r.len() {
        assert!(r[j] == s[j] && r[j] != 0, "result is the NUL-free prefix");
        j += 1;
    }
    kani::cover!(first < len && first > 0, "NUL in the middle");
    kani::cover!(first == len && len == 8, "no NUL at all");
}

use std::io::Cursor;

use binrw::Endian;

use crate::string::binrw_write_codepage_string;

fn verif_fmt_ok(_o: &mut dyn core::fmt::Write, _a: core::fmt::Arguments<'_>) -> core::fmt::Result {
    Ok(())
}

/// ASCII text of length `len` (content 'a'..): encoded length == character count.
fn text(len: usize) -> String {
    let mut s = String::with_capacity(len);
    let mut i = 0;
    while i < len {
        s.push((b'a' + (i % 26) as u8) as char);
        i += 1;
    }
    s
}

/// Fixed-width field: exactly N bytes = text truncated to N, then NULs.
fn check_fixed<const N: usize>(len: usize, raw: bool) {
    let s = text(len);
    let mut w = Cursor::new(Vec::new());
    let r = binrw_write_codepage_string::<N, _>(&s, &mut w, Endian::Little, (raw, 0));
    assert!(r.is_ok(), "text field encodes");
    let out = w.into_inner();
    assert!(out.len() == N, "a fixed-width text field occupies exactly its N bytes");
    let keep = if len < N { len } else { N };
    let sb = s.as_bytes();
    let mut i = 0;
    while i < N {
        if i < keep {
            assert!(out[i] == sb[i], "the text, truncated to the field width");
        } else {
            assert!(out[i] == 0, "NUL padding after the text");
        }
        i += 1;
    }
    core::mem::forget(r);
}

/// Variable-width message field: NUL-padded to a multiple of 4, never more than N.
fn check_aligned<const N: usize>(len: usize) {
    let s = text(len);
    let mut w = Cursor::new(Vec::new());
    let r = binrw_write_codepage_string::<N, _>(&s, &mut w, Endian::Little, (false, 4));
    assert!(r.is_ok(), "text field encodes");
    let out = w.into_inner();
    assert!(out.len() % 4 == 0, "a variable-width text field is padded to a multiple of 4");
    assert!(out.len() <= N, "a variable-width text field never exceeds its maximum");
    let keep = if len < N { len } else { N };
    assert!(out.len() >= keep && out.len() < keep + 4, "no more padding than needed");
    let sb = s.as_bytes();
    let mut i = 0;
    while i < out.len() {
        if i < keep {
            assert!(out[i] == sb[i], "the text, truncated to the maximum");
        } else {
            assert!(out[i] == 0, "NUL padding after the text");
        }
        i += 1;
    }
    core::mem::forget(r);
}

/// The free-text packets sent to LFS must end in a NUL byte.
fn check_terminated_fixed<const N: usize>(len: usize) {
    let s = text(len);
    let mut w = Cursor::new(Vec::new());
    let r = binrw_write_codepage_string::<N, _>(&s, &mut w, Endian::Little, (false, 0));
    let out = w.into_inner();
    assert!(out.len() > 0 && out[out.len() - 1] == 0, "free-text field ends in a NUL byte");
    core::mem::forget(r);
}

fn check_terminated_aligned<const N: usize>(len: usize) {
    let s = text(len);
    let mut w = Cursor::new(Vec::new());
    let r = binrw_write_codepage_string::<N, _>(&s, &mut w, Endian::Little, (false, 4));
    let out = w.into_inner();
    assert!(out.len() > 0 && out[out.len() - 1] == 0, "free-text field ends in a NUL byte");
    core::mem::forget(r);
}

//@ id: text_fixed_6_0
//@ prop: C11
//@ functions: insim_core/src/string/mod.rs binrw_write_codepage_string::<6>
//@ statement: fixed-width text field of width 6, ASCII text of lengths [0, 1, 2, 3, 4, 5, 6, 7, 8, 9, 10, 11]: the field occupies exactly 6 bytes = the text truncated to 6, then NUL padding
//@ bounded: text lengths 0..=11 of all 0..=2N+1 enumerated concretely, ASCII content (encoded length == character count); multi-byte / multi-codepage content reaches this logic only through the encoded length
//@ timeout: 1500
#[kani::proof]
#[kani::stub(core::fmt::write, verif_fmt_ok)]
fn c11_text_fixed_6_0() {
    for len in [0, 1, 2, 3, 4, 5, 6, 7, 8, 9, 10, 11] {
        check_fixed::<6>(len, false);
    }
}

//@ id: text_fixed_6_1
//@ prop: C11
//@ functions: insim_core/src/string/mod.rs binrw_write_codepage_string::<6>
//@ statement: fixed-width text field of width 6, ASCII text of lengths [12, 13]: the field occupies exactly 6 bytes = the text truncated to 6, then NUL padding
//@ bounded: text lengths 12..=13 of all 0..=2N+1 enumerated concretely, ASCII content (encoded length == character count); multi-byte / multi-codepage content reaches this logic only through the encoded length
//@ timeout: 1500
#[kani::proof]
#[kani::stub(core::fmt::write, verif_fmt_ok)]
fn c11_text_fixed_6_1() {
    for len in [12, 13] {
        check_fixed::<6>(len, false);
    }
}

//@ id: text_fixed_8_0
//@ prop: C11
//@ functions: insim_core/src/string/mod.rs binrw_write_codepage_string::<8>
//@ statement: fixed-width text field of width 8, ASCII text of lengths [0, 1, 2, 3, 4, 5, 6, 7, 8, 9, 10, 11]: the field occupies exactly 8 bytes = the text truncated to 8, then NUL padding
//@ bounded: text lengths 0..=11 of all 0..=2N+1 enumerated concretely, ASCII content (encoded length == character count); multi-byte / multi-codepage content reaches this logic only through the encoded length
//@ timeout: 1500
#[kani::proof]
#[kani::stub(core::fmt::write, verif_fmt_ok)]
fn c11_text_fixed_8_0() {
    for len in [0, 1, 2, 3, 4, 5, 6, 7, 8, 9, 10, 11] {
        check_fixed::<8>(len, false);
    }
}

//@ id: text_fixed_8_1
//@ prop: C11
//@ functions: insim_core/src/string/mod.rs binrw_write_codepage_string::<8>
//@ statement: fixed-width text field of width 8, ASCII text of lengths [12, 13, 14, 15, 16, 17]: the field occupies exactly 8 bytes = the text truncated to 8, then NUL padding
//@ bounded: text lengths 12..=17 of all 0..=2N+1 enumerated concretely, ASCII content (encoded length == character count); multi-byte / multi-codepage content reaches this logic only through the encoded length
//@ timeout: 1500
#[kani::proof]
#[kani::stub(core::fmt::write, verif_fmt_ok)]
fn c11_text_fixed_8_1() {
    for len in [12, 13, 14, 15, 16, 17] {
        check_fixed::<8>(len, false);
    }
}

//@ id: text_fixed_16_0
//@ prop: C11
//@ functions: insim_core/src/string/mod.rs binrw_write_codepage_string::<16>
//@ statement: fixed-width text field of width 16, ASCII text of lengths [0, 1, 2, 3, 4, 5, 6, 7, 8, 9, 10, 11]: the field occupies exactly 16 bytes = the text truncated to 16, then NUL padding (also in raw mode, as used for the ISI admin password)
//@ bounded: text lengths 0..=11 of all 0..=2N+1 enumerated concretely, ASCII content (encoded length == character count); multi-byte / multi-codepage content reaches this logic only through the encoded length
//@ timeout: 1500
#[kani::proof]
#[kani::stub(core::fmt::write, verif_fmt_ok)]
fn c11_text_fixed_16_0() {
    for len in [0, 1, 2, 3, 4, 5, 6, 7, 8, 9, 10, 11] {
        check_fixed::<16>(len, false);
        check_fixed::<16>(len, true);
    }
}

//@ id: text_fixed_16_1
//@ prop: C11
//@ functions: insim_core/src/string/mod.rs binrw_write_codepage_string::<16>
//@ statement: fixed-width text field of width 16, ASCII text of lengths [12, 13, 14, 15, 16, 17, 18, 19, 20, 21, 22, 23]: the field occupies exactly 16 bytes = the text truncated to 16, then NUL padding (also in raw mode, as used for the ISI admin password)
//@ bounded: text lengths 12..=23 of all 0..=2N+1 enumerated concretely, ASCII content (encoded length == character count); multi-byte / multi-codepage content reaches this logic only through the encoded length
//@ timeout: 1500
#[kani::proof]
#[kani::stub(core::fmt::write, verif_fmt_ok)]
fn c11_text_fixed_16_1() {
    for len in [12, 13, 14, 15, 16, 17, 18, 19, 20, 21, 22, 23] {
        check_fixed::<16>(len, false);
        check_fixed::<16>(len, true);
    }
}

//@ id: text_fixed_16_2
//@ prop: C11
//@ functions: insim_core/src/string/mod.rs binrw_write_codepage_string::<16>
//@ statement: fixed-width text field of width 16, ASCII text of lengths [24, 25, 26, 27, 28, 29, 30, 31, 32, 33]: the field occupies exactly 16 bytes = the text truncated to 16, then NUL padding (also in raw mode, as used for the ISI admin password)
//@ bounded: text lengths 24..=33 of all 0..=2N+1 enumerated concretely, ASCII content (encoded length == character count); multi-byte / multi-codepage content reaches this logic only through the encoded length
//@ timeout: 1500
#[kani::proof]
#[kani::stub(core::fmt::write, verif_fmt_ok)]
fn c11_text_fixed_16_2() {
    for len in [24, 25, 26, 27, 28, 29, 30, 31, 32, 33] {
        check_fixed::<16>(len, false);
        check_fixed::<16>(len, true);
    }
}

//@ id: text_fixed_24_0
//@ prop: C11
//@ functions: insim_core/src/string/mod.rs binrw_write_codepage_string::<24>
//@ statement: fixed-width text field of width 24, ASCII text of lengths [0, 1, 2, 3, 4, 5, 6, 7, 8, 9, 10, 11]: the field occupies exactly 24 bytes = the text truncated to 24, then NUL padding
//@ bounded: text lengths 0..=11 of all 0..=2N+1 enumerated concretely, ASCII content (encoded length == character count); multi-byte / multi-codepage content reaches this logic only through the encoded length
//@ timeout: 1500
#[kani::proof]
#[kani::stub(core::fmt::write, verif_fmt_ok)]
fn c11_text_fixed_24_0() {
    for len in [0, 1, 2, 3, 4, 5, 6, 7, 8, 9, 10, 11] {
        check_fixed::<24>(len, false);
    }
}

//@ id: text_fixed_24_1
//@ prop: C11
//@ functions: insim_core/src/string/mod.rs binrw_write_codepage_string::<24>
//@ statement: fixed-width text field of width 24, ASCII text of lengths [12, 13, 14, 15, 16, 17, 18, 19, 20, 21, 22, 23]: the field occupies exactly 24 bytes = the text truncated to 24, then NUL padding
//@ bounded: text lengths 12..=23 of all 0..=2N+1 enumerated concretely, ASCII content (encoded length == character count); multi-byte / multi-codepage content reaches this logic only through the encoded length
//@ timeout: 1500
#[kani::proof]
#[kani::stub(core::fmt::write, verif_fmt_ok)]
fn c11_text_fixed_24_1() {
    for len in [12, 13, 14, 15, 16, 17, 18, 19, 20, 21, 22, 23] {
        check_fixed::<24>(len, false);
    }
}

//@ id: text_fixed_24_2
//@ prop: C11
//@ functions: insim_core/src/string/mod.rs binrw_write_codepage_string::<24>
//@ statement: fixed-width text field of width 24, ASCII text of lengths [24, 25, 26, 27, 28, 29, 30, 31, 32, 33, 34, 35]: the field occupies exactly 24 bytes = the text truncated to 24, then NUL padding
//@ bounded: text lengths 24..=35 of all 0..=2N+1 enumerated concretely, ASCII content (encoded length == character count); multi-byte / multi-codepage content reaches this logic only through the encoded length
//@ timeout: 1500
#[kani::proof]
#[kani::stub(core::fmt::write, verif_fmt_ok)]
fn c11_text_fixed_24_2() {
    for len in [24, 25, 26, 27, 28, 29, 30, 31, 32, 33, 34, 35] {
        check_fixed::<24>(len, false);
    }
}

//@ id: text_fixed_24_3
//@ prop: C11
//@ functions: insim_core/src/string/mod.rs binrw_write_codepage_string::<24>
//@ statement: fixed-width text field of width 24, ASCII text of lengths [36, 37, 38, 39, 40, 41, 42, 43, 44, 45, 46, 47]: the field occupies exactly 24 bytes = the text truncated to 24, then NUL padding
//@ bounded: text lengths 36..=47 of all 0..=2N+1 enumerated concretely, ASCII content (encoded length == character count); multi-byte / multi-codepage content reaches this logic only through the encoded length
//@ timeout: 1500
#[kani::proof]
#[kani::stub(core::fmt::write, verif_fmt_ok)]
fn c11_text_fixed_24_3() {
    for len in [36, 37, 38, 39, 40, 41, 42, 43, 44, 45, 46, 47] {
        check_fixed::<24>(len, false);
    }
}

//@ id: text_fixed_24_4
//@ prop: C11
//@ functions: insim_core/src/string/mod.rs binrw_write_codepage_string::<24>
//@ statement: fixed-width text field of width 24, ASCII text of lengths [48, 49]: the field occupies exactly 24 bytes = the text truncated to 24, then NUL padding
//@ bounded: text lengths 48..=49 of all 0..=2N+1 enumerated concretely, ASCII content (encoded length == character count); multi-byte / multi-codepage content reaches this logic only through the encoded length
//@ timeout: 1500
#[kani::proof]
#[kani::stub(core::fmt::write, verif_fmt_ok)]
fn c11_text_fixed_24_4() {
    for len in [48, 49] {
        check_fixed::<24>(len, false);
    }
}

//@ id: text_fixed_32_0
//@ prop: C11
//@ functions: insim_core/src/string/mod.rs binrw_write_codepage_string::<32>
//@ statement: fixed-width text field of width 32, ASCII text of lengths [0, 1, 2, 3, 4, 5, 6, 7, 8, 9, 10, 11]: the field occupies exactly 32 bytes = the text truncated to 32, then NUL padding
//@ bounded: text lengths 0..=11 of all 0..=2N+1 enumerated concretely, ASCII content (encoded length == character count); multi-byte / multi-codepage content reaches this logic only through the encoded length
//@ timeout: 1500
#[kani::proof]
#[kani::stub(core::fmt::write, verif_fmt_ok)]
fn c11_text_fixed_32_0() {
    for len in [0, 1, 2, 3, 4, 5, 6, 7, 8, 9, 10, 11] {
        check_fixed::<32>(len, false);
    }
}

//@ id: text_fixed_32_1
//@ prop: C11
//@ functions: insim_core/src/string/mod.rs binrw_write_codepage_string::<32>
//@ statement: fixed-width text field of width 32, ASCII text of lengths [12, 13, 14, 15, 16, 17, 18, 19, 20, 21, 22, 23]: the field occupies exactly 32 bytes = the text truncated to 32, then NUL padding
//@ bounded: text lengths 12..=23 of all 0..=2N+1 enumerated concretely, ASCII content (encoded length == character count); multi-byte / multi-codepage content reaches this logic only through the encoded length
//@ timeout: 1500
#[kani::proof]
#[kani::stub(core::fmt::write, verif_fmt_ok)]
fn c11_text_fixed_32_1() {
    for len in [12, 13, 14, 15, 16, 17, 18, 19, 20, 21, 22, 23] {
        check_fixed::<32>(len, false);
    }
}

//@ id: text_fixed_32_2
//@ prop: C11
//@ functions: insim_core/src/string/mod.rs binrw_write_codepage_string::<32>
//@ statement: fixed-width text field of width 32, ASCII text of lengths [24, 25, 26, 27, 28, 29, 30, 31, 32, 33, 34, 35]: the field occupies exactly 32 bytes = the text truncated to 32, then NUL padding
//@ bounded: text lengths 24..=35 of all 0..=2N+1 enumerated concretely, ASCII content (encoded length == character count); multi-byte / multi-codepage content reaches this logic only through the encoded length
//@ timeout: 1500
#[kani::proof]
#[kani::stub(core::fmt::write, verif_fmt_ok)]
fn c11_text_fixed_32_2() {
    for len in [24, 25, 26, 27, 28, 29, 30, 31, 32, 33, 34, 35] {
        check_fixed::<32>(len, false);
    }
}

//@ id: text_fixed_32_3
//@ prop: C11
//@ functions: insim_core/src/string/mod.rs binrw_write_codepage_string::<32>
//@ statement: fixed-width text field of width 32, ASCII text of lengths [36, 37, 38, 39, 40, 41, 42, 43, 44, 45, 46, 47]: the field occupies exactly 32 bytes = the text truncated to 32, then NUL padding
//@ bounded: text lengths 36..=47 of all 0..=2N+1 enumerated concretely, ASCII content (encoded length == character count); multi-byte / multi-codepage content reaches this logic only through the encoded length
//@ timeout: 1500
#[kani::proof]
#[kani::stub(core::fmt::write, verif_fmt_ok)]
fn c11_text_fixed_32_3() {
    for len in [36, 37, 38, 39, 40, 41, 42, 43, 44, 45, 46, 47] {
        check_fixed::<32>(len, false);
    }
}

//@ id: text_fixed_32_4
//@ prop: C11
//@ functions: insim_core/src/string/mod.rs binrw_write_codepage_string::<32>
//@ statement: fixed-width text field of width 32, ASCII text of lengths [48, 49, 50, 51, 52, 53, 54, 55, 56, 57, 58, 59]: the field occupies exactly 32 bytes = the text truncated to 32, then NUL padding
//@ bounded: text lengths 48..=59 of all 0..=2N+1 enumerated concretely, ASCII content (encoded length == character count); multi-byte / multi-codepage content reaches this logic only through the encoded length
//@ timeout: 1500
#[kani::proof]
#[kani::stub(core::fmt::write, verif_fmt_ok)]
fn c11_text_fixed_32_4() {
    for len in [48, 49, 50, 51, 52, 53, 54, 55, 56, 57, 58, 59] {
        check_fixed::<32>(len, false);
    }
}

//@ id: text_fixed_32_5
//@ prop: C11
//@ functions: insim_core/src/string/mod.rs binrw_write_codepage_string::<32>
//@ statement: fixed-width text field of width 32, ASCII text of lengths [60, 61, 62, 63, 64, 65]: the field occupies exactly 32 bytes = the text truncated to 32, then NUL padding
//@ bounded: text lengths 60..=65 of all 0..=2N+1 enumerated concretely, ASCII content (encoded length == character count); multi-byte / multi-codepage content reaches this logic only through the encoded length
//@ timeout: 1500
#[kani::proof]
#[kani::stub(core::fmt::write, verif_fmt_ok)]
fn c11_text_fixed_32_5() {
    for len in [60, 61, 62, 63, 64, 65] {
        check_fixed::<32>(len, false);
    }
}

//@ id: text_fixed_64_0
//@ prop: C11
//@ functions: insim_core/src/string/mod.rs binrw_write_codepage_string::<64>
//@ statement: fixed-width text field of width 64, ASCII text of lengths [0, 1, 2, 3, 4, 5, 59, 60, 61, 62, 63, 64]: the field occupies exactly 64 bytes = the text truncated to 64, then NUL padding
//@ bounded: text lengths 0..=64 of the boundary set {0..5} u {N-5..N+5} u {2N,2N+1} enumerated concretely, ASCII content (encoded length == character count); multi-byte / multi-codepage content reaches this logic only through the encoded length
//@ timeout: 1500
#[kani::proof]
#[kani::stub(core::fmt::write, verif_fmt_ok)]
fn c11_text_fixed_64_0() {
    for len in [0, 1, 2, 3, 4, 5, 59, 60, 61, 62, 63, 64] {
        check_fixed::<64>(len, false);
    }
}

//@ id: text_fixed_64_1
//@ prop: C11
//@ functions: insim_core/src/string/mod.rs binrw_write_codepage_string::<64>
//@ statement: fixed-width text field of width 64, ASCII text of lengths [65, 66, 67, 68, 69, 128, 129]: the field occupies exactly 64 bytes = the text truncated to 64, then NUL padding
//@ bounded: text lengths 65..=129 of the boundary set {0..5} u {N-5..N+5} u {2N,2N+1} enumerated concretely, ASCII content (encoded length == character count); multi-byte / multi-codepage content reaches this logic only through the encoded length
//@ timeout: 1500
#[kani::proof]
#[kani::stub(core::fmt::write, verif_fmt_ok)]
fn c11_text_fixed_64_1() {
    for len in [65, 66, 67, 68, 69, 128, 129] {
        check_fixed::<64>(len, false);
    }
}

//@ id: text_fixed_96_0
//@ prop: C11
//@ functions: insim_core/src/string/mod.rs binrw_write_codepage_string::<96>
//@ statement: fixed-width text field of width 96, ASCII text of lengths [0, 1, 2, 3, 4, 5, 91, 92, 93, 94, 95, 96]: the field occupies exactly 96 bytes = the text truncated to 96, then NUL padding
//@ bounded: text lengths 0..=96 of the boundary set {0..5} u {N-5..N+5} u {2N,2N+1} enumerated concretely, ASCII content (encoded length == character count); multi-byte / multi-codepage content reaches this logic only through the encoded length
//@ timeout: 1500
#[kani::proof]
#[kani::stub(core::fmt::write, verif_fmt_ok)]
fn c11_text_fixed_96_0() {
    for len in [0, 1, 2, 3, 4, 5, 91, 92, 93, 94, 95, 96] {
        check_fixed::<96>(len, false);
    }
}

//@ id: text_fixed_96_1
//@ prop: C11
//@ functions: insim_core/src/string/mod.rs binrw_write_codepage_string::<96>
//@ statement: fixed-width text field of width 96, ASCII text of lengths [97, 98, 99, 100, 101, 192, 193]: the field occupies exactly 96 bytes = the text truncated to 96, then NUL padding
//@ bounded: text lengths 97..=193 of the boundary set {0..5} u {N-5..N+5} u {2N,2N+1} enumerated concretely, ASCII content (encoded length == character count); multi-byte / multi-codepage content reaches this logic only through the encoded length
//@ timeout: 1500
#[kani::proof]
#[kani::stub(core::fmt::write, verif_fmt_ok)]
fn c11_text_fixed_96_1() {
    for len in [97, 98, 99, 100, 101, 192, 193] {
        check_fixed::<96>(len, false);
    }
}

//@ id: text_fixed_128_0
//@ prop: C11
//@ functions: insim_core/src/string/mod.rs binrw_write_codepage_string::<128>
//@ statement: fixed-width text field of width 128, ASCII text of lengths [0, 1, 2, 3, 4, 5, 123, 124, 125, 126, 127, 128]: the field occupies exactly 128 bytes = the text truncated to 128, then NUL padding
//@ bounded: text lengths 0..=128 of the boundary set {0..5} u {N-5..N+5} u {2N,2N+1} enumerated concretely, ASCII content (encoded length == character count); multi-byte / multi-codepage content reaches this logic only through the encoded length
//@ timeout: 1500
#[kani::proof]
#[kani::stub(core::fmt::write, verif_fmt_ok)]
fn c11_text_fixed_128_0() {
    for len in [0, 1, 2, 3, 4, 5, 123, 124, 125, 126, 127, 128] {
        check_fixed::<128>(len, false);
    }
}

//@ id: text_fixed_128_1
//@ prop: C11
//@ functions: insim_core/src/string/mod.rs binrw_write_codepage_string::<128>
//@ statement: fixed-width text field of width 128, ASCII text of lengths [129, 130, 131, 132, 133, 256, 257]: the field occupies exactly 128 bytes = the text truncated to 128, then NUL padding
//@ bounded: text lengths 129..=257 of the boundary set {0..5} u {N-5..N+5} u {2N,2N+1} enumerated concretely, ASCII content (encoded length == character count); multi-byte / multi-codepage content reaches this logic only through the encoded length
//@ timeout: 1500
#[kani::proof]
#[kani::stub(core::fmt::write, verif_fmt_ok)]
fn c11_text_fixed_128_1() {
    for len in [129, 130, 131, 132, 133, 256, 257] {
        check_fixed::<128>(len, false);
    }
}

//@ id: text_fixed_240_0
//@ prop: C11
//@ functions: insim_core/src/string/mod.rs binrw_write_codepage_string::<240>
//@ statement: fixed-width text field of width 240, ASCII text of lengths [0, 1, 2, 3, 4, 5, 235, 236, 237, 238, 239, 240]: the field occupies exactly 240 bytes = the text truncated to 240, then NUL padding
//@ bounded: text lengths 0..=240 of the boundary set {0..5} u {N-5..N+5} u {2N,2N+1} enumerated concretely, ASCII content (encoded length == character count); multi-byte / multi-codepage content reaches this logic only through the encoded length
//@ timeout: 1500
#[kani::proof]
#[kani::stub(core::fmt::write, verif_fmt_ok)]
fn c11_text_fixed_240_0() {
    for len in [0, 1, 2, 3, 4, 5, 235, 236, 237, 238, 239, 240] {
        check_fixed::<240>(len, false);
    }
}

//@ id: text_fixed_240_1
//@ prop: C11
//@ functions: insim_core/src/string/mod.rs binrw_write_codepage_string::<240>
//@ statement: fixed-width text field of width 240, ASCII text of lengths [241, 242, 243, 244, 245, 480, 481]: the field occupies exactly 240 bytes = the text truncated to 240, then NUL padding
//@ bounded: text lengths 241..=481 of the boundary set {0..5} u {N-5..N+5} u {2N,2N+1} enumerated concretely, ASCII content (encoded length == character count); multi-byte / multi-codepage content reaches this logic only through the encoded length
//@ timeout: 1500
#[kani::proof]
#[kani::stub(core::fmt::write, verif_fmt_ok)]
fn c11_text_fixed_240_1() {
    for len in [241, 242, 243, 244, 245, 480, 481] {
        check_fixed::<240>(len, false);
    }
}

//@ id: text_aligned_64_0
//@ prop: C11
//@ functions: insim_core/src/string/mod.rs binrw_write_codepage_string::<64>
//@ statement: variable-width message field of maximum 64 (aligned to 4), ASCII text of lengths [0, 1, 2, 3, 4, 5, 6, 7, 8, 9, 58, 59]: the field is the text (truncated to 64) NUL-padded to a multiple of 4, never longer than 64, with less than 4 bytes of padding
//@ bounded: text lengths [0, 1, 2, 3, 4, 5, 6, 7, 8, 9, 58, 59] enumerated concretely (every residue mod 4 on both sides of the maximum), ASCII content
//@ timeout: 1500
#[kani::proof]
#[kani::stub(core::fmt::write, verif_fmt_ok)]
fn c11_text_aligned_64_0() {
    for len in [0, 1, 2, 3, 4, 5, 6, 7, 8, 9, 58, 59] {
        check_aligned::<64>(len);
    }
}

//@ id: text_aligned_64_1
//@ prop: C11
//@ functions: insim_core/src/string/mod.rs binrw_write_codepage_string::<64>
//@ statement: variable-width message field of maximum 64 (aligned to 4), ASCII text of lengths [60, 61, 62, 63, 64, 65, 66, 67, 68, 69, 128, 129]: the field is the text (truncated to 64) NUL-padded to a multiple of 4, never longer than 64, with less than 4 bytes of padding
//@ bounded: text lengths [60, 61, 62, 63, 64, 65, 66, 67, 68, 69, 128, 129] enumerated concretely (every residue mod 4 on both sides of the maximum), ASCII content
//@ timeout: 1500
#[kani::proof]
#[kani::stub(core::fmt::write, verif_fmt_ok)]
fn c11_text_aligned_64_1() {
    for len in [60, 61, 62, 63, 64, 65, 66, 67, 68, 69, 128, 129] {
        check_aligned::<64>(len);
    }
}

//@ id: text_aligned_128_0
//@ prop: C11
//@ functions: insim_core/src/string/mod.rs binrw_write_codepage_string::<128>
//@ statement: variable-width message field of maximum 128 (aligned to 4), ASCII text of lengths [0, 1, 2, 3, 4, 5, 6, 7, 8, 9, 122, 123]: the field is the text (truncated to 128) NUL-padded to a multiple of 4, never longer than 128, with less than 4 bytes of padding
//@ bounded: text lengths [0, 1, 2, 3, 4, 5, 6, 7, 8, 9, 122, 123] enumerated concretely (every residue mod 4 on both sides of the maximum), ASCII content
//@ timeout: 1500
#[kani::proof]
#[kani::stub(core::fmt::write, verif_fmt_ok)]
fn c11_text_aligned_128_0() {
    for len in [0, 1, 2, 3, 4, 5, 6, 7, 8, 9, 122, 123] {
        check_aligned::<128>(len);
    }
}

//@ id: text_aligned_128_1
//@ prop: C11
//@ functions: insim_core/src/string/mod.rs binrw_write_codepage_string::<128>
//@ statement: variable-width message field of maximum 128 (aligned to 4), ASCII text of lengths [124, 125, 126, 127, 128, 129, 130, 131, 132, 133, 256, 257]: the field is the text (truncated to 128) NUL-padded to a multiple of 4, never longer than 128, with less than 4 bytes of padding
//@ bounded: text lengths [124, 125, 126, 127, 128, 129, 130, 131, 132, 133, 256, 257] enumerated concretely (every residue mod 4 on both sides of the maximum), ASCII content
//@ timeout: 1500
#[kani::proof]
#[kani::stub(core::fmt::write, verif_fmt_ok)]
fn c11_text_aligned_128_1() {
    for len in [124, 125, 126, 127, 128, 129, 130, 131, 132, 133, 256, 257] {
        check_aligned::<128>(len);
    }
}

//@ id: text_aligned_240_0
//@ prop: C11
//@ functions: insim_core/src/string/mod.rs binrw_write_codepage_string::<240>
//@ statement: variable-width message field of maximum 240 (aligned to 4), ASCII text of lengths [0, 1, 2, 3, 4, 5, 6, 7, 8, 9, 234, 235]: the field is the text (truncated to 240) NUL-padded to a multiple of 4, never longer than 240, with less than 4 bytes of padding
//@ bounded: text lengths [0, 1, 2, 3, 4, 5, 6, 7, 8, 9, 234, 235] enumerated concretely (every residue mod 4 on both sides of the maximum), ASCII content
//@ timeout: 1500
#[kani::proof]
#[kani::stub(core::fmt::write, verif_fmt_ok)]
fn c11_text_aligned_240_0() {
    for len in [0, 1, 2, 3, 4, 5, 6, 7, 8, 9, 234, 235] {
        check_aligned::<240>(len);
    }
}

//@ id: text_aligned_240_1
//@ prop: C11
//@ functions: insim_core/src/string/mod.rs binrw_write_codepage_string::<240>
//@ statement: variable-width message field of maximum 240 (aligned to 4), ASCII text of lengths [236, 237, 238, 239, 240, 241, 242, 243, 244, 245, 480, 481]: the field is the text (truncated to 240) NUL-padded to a multiple of 4, never longer than 240, with less than 4 bytes of padding
//@ bounded: text lengths [236, 237, 238, 239, 240, 241, 242, 243, 244, 245, 480, 481] enumerated concretely (every residue mod 4 on both sides of the maximum), ASCII content
//@ timeout: 1500
#[kani::proof]
#[kani::stub(core::fmt::write, verif_fmt_ok)]
fn c11_text_aligned_240_1() {
    for len in [236, 237, 238, 239, 240, 241, 242, 243, 244, 245, 480, 481] {
        check_aligned::<240>(len);
    }
}

//@ id: terminated_mst_short
//@ prop: C11
//@ functions: insim_core/src/string/mod.rs binrw_write_codepage_string::<64>
//@ statement: the text field of MST (width 64, fixed) ends in a NUL byte for ASCII text of lengths [0, 1, 2, 3, 5, 62, 63]
//@ bounded: text lengths [0, 1, 2, 3, 5, 62, 63] enumerated concretely
//@ timeout: 1500
#[kani::proof]
#[kani::stub(core::fmt::write, verif_fmt_ok)]
fn c11_terminated_mst_short() {
    for len in [0, 1, 2, 3, 5, 62, 63] {
        check_terminated_fixed::<64>(len);
    }
}

//@ id: terminated_mst_full
//@ prop: C11
//@ functions: insim_core/src/string/mod.rs binrw_write_codepage_string::<64>
//@ statement: the text field of MST (width 64, fixed) ends in a NUL byte for ASCII text of lengths [64, 65, 128] - the lengths that leave no room for a terminator
//@ bounded: text lengths [64, 65, 128] enumerated concretely
//@ timeout: 1500
#[kani::proof]
#[kani::stub(core::fmt::write, verif_fmt_ok)]
fn c11_terminated_mst_full() {
    for len in [64, 65, 128] {
        check_terminated_fixed::<64>(len);
    }
}

//@ id: terminated_msx_short
//@ prop: C11
//@ functions: insim_core/src/string/mod.rs binrw_write_codepage_string::<96>
//@ statement: the text field of MSX (width 96, fixed) ends in a NUL byte for ASCII text of lengths [0, 1, 2, 3, 5, 94, 95]
//@ bounded: text lengths [0, 1, 2, 3, 5, 94, 95] enumerated concretely
//@ timeout: 1500
#[kani::proof]
#[kani::stub(core::fmt::write, verif_fmt_ok)]
fn c11_terminated_msx_short() {
    for len in [0, 1, 2, 3, 5, 94, 95] {
        check_terminated_fixed::<96>(len);
    }
}

//@ id: terminated_msx_full
//@ prop: C11
//@ functions: insim_core/src/string/mod.rs binrw_write_codepage_string::<96>
//@ statement: the text field of MSX (width 96, fixed) ends in a NUL byte for ASCII text of lengths [96, 97, 192] - the lengths that leave no room for a terminator
//@ bounded: text lengths [96, 97, 192] enumerated concretely
//@ timeout: 1500
#[kani::proof]
#[kani::stub(core::fmt::write, verif_fmt_ok)]
fn c11_terminated_msx_full() {
    for len in [96, 97, 192] {
        check_terminated_fixed::<96>(len);
    }
}

//@ id: terminated_msl_short
//@ prop: C11
//@ functions: insim_core/src/string/mod.rs binrw_write_codepage_string::<128>
//@ statement: the text field of MSL (width 128, fixed) ends in a NUL byte for ASCII text of lengths [0, 1, 2, 3, 5, 126, 127]
//@ bounded: text lengths [0, 1, 2, 3, 5, 126, 127] enumerated concretely
//@ timeout: 1500
#[kani::proof]
#[kani::stub(core::fmt::write, verif_fmt_ok)]
fn c11_terminated_msl_short() {
    for len in [0, 1, 2, 3, 5, 126, 127] {
        check_terminated_fixed::<128>(len);
    }
}

//@ id: terminated_msl_full
//@ prop: C11
//@ functions: insim_core/src/string/mod.rs binrw_write_codepage_string::<128>
//@ statement: the text field of MSL (width 128, fixed) ends in a NUL byte for ASCII text of lengths [128, 129, 256] - the lengths that leave no room for a terminator
//@ bounded: text lengths [128, 129, 256] enumerated concretely
//@ timeout: 1500
#[kani::proof]
#[kani::stub(core::fmt::write, verif_fmt_ok)]
fn c11_terminated_msl_full() {
    for len in [128, 129, 256] {
        check_terminated_fixed::<128>(len);
    }
}

//@ id: terminated_mtc_short
//@ prop: C11
//@ functions: insim_core/src/string/mod.rs binrw_write_codepage_string::<128>
//@ statement: the text field of MTC (width 128, aligned) ends in a NUL byte for ASCII text of lengths [0, 1, 2, 3, 5, 6, 7, 125, 126, 127]
//@ bounded: text lengths [0, 1, 2, 3, 5, 6, 7, 125, 126, 127] enumerated concretely
//@ timeout: 1500
#[kani::proof]
#[kani::stub(core::fmt::write, verif_fmt_ok)]
fn c11_terminated_mtc_short() {
    for len in [0, 1, 2, 3, 5, 6, 7, 125, 126, 127] {
        check_terminated_aligned::<128>(len);
    }
}

//@ id: terminated_mtc_full
//@ prop: C11
//@ functions: insim_core/src/string/mod.rs binrw_write_codepage_string::<128>
//@ statement: the text field of MTC (width 128, aligned) ends in a NUL byte for ASCII text of lengths [4, 8, 124, 128, 129] - the lengths that leave no room for a terminator
//@ bounded: text lengths [4, 8, 124, 128, 129] enumerated concretely
//@ timeout: 1500
#[kani::proof]
#[kani::stub(core::fmt::write, verif_fmt_ok)]
fn c11_terminated_mtc_full() {
    for len in [4, 8, 124, 128, 129] {
        check_terminated_aligned::<128>(len);
    }
}
