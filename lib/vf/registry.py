"""Which units decide which property (DESIGN.md section 5)."""
from . import gen, kinds

A_BINRW = "A3 binrw runtime (Cursor, primitive readers/writers, derive expansion) is executed as compiled code by Kani, not verified separately"
A_KANI = "Kani 0.68 / CBMC 6.11 soundness (bit-precise semantics of the compiled MIR); rustc; the harness code under /verif/kani"
A_VERUS = "Verus 0.2026.09.13 / Z3 soundness; the mechanical extraction in /verif/lib/vf/extract.py (logged rewrites only)"
A_FMT = "A8 error-message formatting (core::fmt::write) is stubbed to Ok(()) in harnesses that do not inspect text"

PROPS = {
    "C01": {
        "generators": [kinds.gen_kinds, gen.gen_enum_tables],
        "level": "proof",
        "trusted_base": [A_KANI, A_BINRW],
        "assumptions": [
            "A3b field independence: inside a kind harness the derived-enum bytes, time fields and (where present) other constant dimensions are held at a constant; 'for all packets' over the product of dimensions relies on binrw's derived struct codec handling fields independently and in declaration order - which is what the harness executes for the symbolic dimensions",
            "A3 the 73-way writer/reader dispatch of `Packet` (magic byte -> struct) is not part of the kind harnesses; size-byte modes are Codec::encode's contract (C03)",
        ],
        "min_obligations": {"quick": 60, "thorough": 90},
        "uncovered": ["kinds listed under uncovered_kinds (text, counted vectors, arrays, hand-written leaf inside a derived struct, hash sets, float parsing): their full round trip is out of CBMC's reach; the leaf codecs involved have their own full-domain obligations (C13 C14 C15 + leaf harnesses), the derived composition is assumed (A3b)",
                      "multi-codepage text inside packets; Mso name/message split (text algorithms, DESIGN K13)"],
    },
    "C03": {
        "generators": [kinds.gen_kinds],
        "verus_units": ["framing"],
        "level": "proof",
        "trusted_base": [A_VERUS, A_KANI, A_BINRW],
        "assumptions": [],
        "min_obligations": {"quick": 70, "thorough": 70},
        "uncovered": ["frame length / count byte of Plc, Mal, Ipb (hash-set backed: RandomState needs OS randomness, unsupported in Kani), Ver (float printing), Mso (text algorithms)", "text padding for non-ASCII text (encoded length differs from character count): text conversion is out of reach (K13)", "element counts beyond 3 (bounded): a count byte that goes wrong only for large counts is not reached"],
    },
    "C04": {
        "generators": [gen.gen_enum_tables],
        "verus_units": ["framing"],
        "level": "proof",
        "trusted_base": [A_VERUS, A_KANI, A_BINRW],
        "assumptions": [],
        "min_obligations": {"quick": 30, "thorough": 30},
        "uncovered": ["per-struct parser totality on arbitrary bytes for text-bearing / counted / Mso kinds (text algorithms and binrw's counted reader are out of reach)", "the 73-way reader dispatch of Packet (binrw data-enum reader, DESIGN K5) is assumed", "enum bytes: 2 representative undeclared values per enum in quick (bounded)"],
    },
    "C13": {
        "generators": [gen.gen_c13_names],
        "level": "proof",
        "trusted_base": [A_KANI, A_BINRW],
        "assumptions": [],
        "min_obligations": {"quick": 2, "thorough": 2},
        "uncovered": [],
    },
    "C15": {
        "verus_units": ["racelaps"],
        "level": "proof",
        "trusted_base": [A_KANI, A_BINRW],
        "assumptions": [],
        "min_obligations": {"quick": 8, "thorough": 8},
        "uncovered": [],
    },
    "C07": {
        "verus_units": ["gates"],
        "generators": [gen.gen_c07],
        "level": "proof",
        "trusted_base": [A_KANI],
        "assumptions": [],
        "min_obligations": {"quick": 3, "thorough": 3},
        "uncovered": ["the call site inside Framed::read (reply written before the keep-alive is returned, exactly once) - see C05 harnesses when claimed"],
    },
    "C09": {
        "verus_units": ["gates"],
        "generators": [gen.gen_c09],
        "level": "proof",
        "trusted_base": [A_KANI],
        "assumptions": [],
        "min_obligations": {"quick": 2, "thorough": 2},
        "uncovered": ["the call site inside Framed::read (gate applied iff verify_version)"],
    },
    "C14": {
        "generators": [gen.gen_c14_variants],
        "level": "proof",
        "trusted_base": [A_KANI, A_BINRW],
        "assumptions": [],
        "min_obligations": {"quick": 3, "thorough": 3},
        "uncovered": [],
    },
    "C16": {
        "level": "proof",
        "trusted_base": [A_KANI],
        "assumptions": ["A5 precondition of the order axioms: str::parse::<f32> on a digit/dot string never yields NaN, a negative value or -0.0 (assumed on core; the parser admits only is_numeric characters and '.')"],
        "min_obligations": {"quick": 1, "thorough": 1},
        "uncovered": ["FromStr totality on arbitrary strings, Display/FromStr round trip, case-insensitivity, the 8-byte wire form: Peekable<Chars>/take_while_ref/float parsing and printing are out of reach of Kani (K13) and rejected by Verus (V5) - NOT decided"],
    },
    "C10": {
        "level": "proof",
        "trusted_base": [A_KANI, "encoding_rs statics: the identity of WINDOWS_125x / SHIFT_JIS / GBK / EUC_KR / BIG5 with Windows codepages 125x / 932 / 936 / 949 / 950"],
        "assumptions": [],
        "min_obligations": {"quick": 3, "thorough": 3},
        "uncovered": ["to_lossy_bytes / to_lossy_string themselves (faithfulness over the repertoire, '?' substitution, BOM-looking prefixes, DBCS trail byte 0x5E, totality): iterator- and encoding_rs-based text algorithms are out of reach of Kani (K13: 3 symbolic bytes do not finish) and rejected by Verus (V5) - NOT decided"],
    },
    "C12": {
        "level": "proof",
        "trusted_base": [A_KANI],
        "assumptions": [],
        "min_obligations": {"quick": 1, "thorough": 1},
        "uncovered": ["the scanners escape(), unescape(), colours::strip() (round trip on whole strings, idempotence of strip, interaction with the codepage path): chars().peekable() over String is out of reach of Kani (K13) and rejected by Verus (V5) - NOT decided"],
    },
    "C18": {
        "level": "proof",
        "trusted_base": [A_KANI],
        "assumptions": ["program name and admin password are held at constant texts (present/absent is symbolic): String content is out of Kani's reach (K13)"],
        "min_obligations": {"quick": 4, "thorough": 4},
        "uncovered": ["connect_blocking / connect_async (real sockets): that the ISI is the first and only frame and is sent in the configured size mode is not reachable by either verifier; Framed::handshake == write(isi) is one call (C06 covers write)"],
    },
    "C06": {
        "level": "model_checking",
        "trusted_base": [A_KANI, "the executable model of Codec::encode's contract used as a Kani stub (the contract itself is proved in C03/verus/framing::Codec::encode)"],
        "assumptions": ["std::io::Write::write_all is known by its documented contract (writes the whole buffer or fails): the scripted transport implements it directly, because the default implementation's io::Error paths do not terminate in CBMC (measured)", "A8 Codec::encode is replaced by a model of its proved contract: Kani cannot be given the 73-way binrw writer plus Bytes in the same harness within the time budget"],
        "min_obligations": {"quick": 4, "thorough": 4},
        "explanation": "bounded model checking of the real blocking Framed::write with CBMC: frames of 4 bytes, two packets per run, every acceptance count 1..=4 of the transport; request ids symbolic",
        "uncovered": ["the tokio Framed::write (write_all_buf) and transports that return Pending: async code is outside Kani and Verus", "UDP / WebSocket adaptors", "frames longer than 4 bytes and sequences longer than 2 packets (bound)"],
    },
    "C11": {
        "level": "model_checking",
        "trusted_base": [A_KANI],
        "assumptions": ["text content is ASCII (encoded length == character count); multi-byte / multi-codepage text reaches the width logic only through the length of the encoded bytes (by inspection of binrw_write_codepage_string: `res` is not read again before the write) - an assumption, not a proof"],
        "min_obligations": {"quick": 25, "thorough": 40},
        "explanation": "bounded model checking with CBMC of the real text-field writer for every field width used by the protocol (6 8 16 24 32 64 96 128 240), text lengths enumerated concretely: all of 0..=2N+1 for N <= 32, the boundary set {0..5} u {N-5..N+5} u {2N,2N+1} for larger widths, both modes (fixed / aligned to 4), raw mode for the ISI password width; NUL stripping for all slices up to 8 bytes",
        "uncovered": ["multi-byte and multi-codepage text (codepage conversion is out of reach, K13)", "the readers binrw_parse_codepage_string / _until_eof beyond strip_trailing_nul (text decoding)", "Mso's hand-written writer"],
    },
}
