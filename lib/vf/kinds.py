"""Per-packet-kind harness generator (DESIGN.md 5 C01 / C03-LEN / C04-TOTAL).

For every variant of `enum Packet` a value-first harness is generated from the
snapshot's declarations:

    p  = K { every field built by type: integers / ids / flag words / bools /
             f32 / scaled times / nibbles symbolic over their full range;
             derived-enum bytes, text, Track, Vehicle, element counts held at a
             constant (each has its own obligation elsewhere) }
    b  = W(p)            must be Ok           (representable packet encodes)
    |b|+2 is a multiple of 4 in 4..=1020      (C03: legal frame length)
    p' = R(b)            must be Ok, consume b completely
    p' == p  field by field (structural, generated)          (C01, first half)
    W(p') == b                                               (C01, second half)

The structural equality and the value constructors are generated from the
struct / enum declarations, so a new field or variant is picked up (or makes
the harness fail to compile => undecided), never silently ignored.
"""
from __future__ import annotations

import re
from pathlib import Path

from .common import Undecided
from .gen import decls, packet_kinds, HEADER
from .kani import parse_harnesses

INTS = {"u8", "u16", "u32", "u64", "i8", "i16", "i32", "i64", "usize"}


class Unsupported(Exception):
    pass


class KindGen:
    def __init__(self, d, *, count=0, alt=False, len_mode=False):
        self.d = d
        self.len_mode = len_mode   # write-only length harness: nested elements and leaf codecs constant
        self.depth = 0
        self.needs_random_state = False
        self.count = count      # element count for Vec / set fields (0 or 1)
        self.alt = alt          # second constant for the constant dimensions
        self.veq_fns = {}       # type name -> fn text
        self.notes = []         # constant dimensions used (for the statement)

    # ------------------------------------------------------------ values
    def enum_const(self, name):
        it = self.d[name]
        vs = [v for v in it.variants if not v.payload and not v.named]
        v = vs[-1] if self.alt else vs[0]
        return f"{name}::{v.name}"

    def value(self, ty: str, attrs: str, fname: str) -> str:
        d = self.d
        ty = ty.strip()
        const = self.len_mode and self.depth > 0
        if ty in INTS:
            return f"0{ty}" if const else f"kani::any::<{ty}>()"
        if ty == "f32":
            return "0.0f32" if const else "f32::from_bits(kani::any::<u32>())"
        if ty == "bool":
            return "false" if const else "kani::any::<bool>()"
        if ty == "char":
            if "as u8" in attrs:
                return "'a'" if const else "(kani::any::<u8>() as char)"
            raise Unsupported(f"char field {fname} without u8 map")
        if ty == "Duration":
            m = re.search(r"binrw_write_duration::<\s*(u16|u32)\s*,\s*(\d+)", attrs)
            if not m:
                raise Unsupported(f"Duration field {fname} without duration helper")
            # constant (a non-trivial multiple of the resolution): the scaled helpers are proved
            # for all values in C15; a symbolic Duration makes CBMC divide 128-bit values per field
            self.notes.append("time fields constant (C15)")
            return f"Duration::from_millis({7 if not self.alt else 65535} * {m.group(2)})"
        if ty == "String":
            self.notes.append("text fields constant")
            if "binrw_write_codepage_string" not in attrs:
                raise Unsupported(f"String field {fname} without codepage writer")
            return "String::new()"   # text content is C10/C11; the stubbed reader returns the empty text
        if ty == "Ipv4Addr":
            return "std::net::Ipv4Addr::from(kani::any::<u32>())"
        m = re.match(r"Vec<(.+)>$", ty)
        if m:
            self.notes.append(f"element count {self.count}")
            if self.count == 0:
                return "Vec::new()"
            self.depth += 1
            r = "vec![" + ", ".join(self.value(m.group(1), "", fname) for _ in range(self.count)) + "]"
            self.depth -= 1
            return r
        m = re.match(r"\[(.+);\s*(\d+)\]$", ty)
        if m:
            n = int(m.group(2))
            self.depth += 1
            r = "[" + ", ".join(self.value(m.group(1).strip(), "", fname) for _ in range(n)) + "]"
            self.depth -= 1
            return r
        m = re.match(r"Point<(.+)>$", ty)
        if m:
            t = m.group(1)
            return f"insim_core::point::Point {{ x: {self.value(t, '', fname)}, y: {self.value(t, '', fname)}, z: {self.value(t, '', fname)} }}"
        if ty.startswith("IndexSet<") or ty == "PlcAllowedCarsSet":
            # RandomState::new is stubbed with fixed keys (verif_random_state); inserting elements
            # (SipHash + hashbrown) does not finish in CBMC, so hash sets are empty
            self.notes.append("hash set empty")
            self.needs_random_state = True
            return "Default::default()"
        if ty == "GameVersion":
            raise Unsupported("GameVersion: float parsing/printing is out of CBMC's reach")
        # hand-written leaf types with their own obligations
        if ty == "Vehicle":
            self.notes.append("Vehicle constant (C13)")
            return "insim_core::vehicle::Vehicle::Mod(0x00ABCDEF)" if self.alt else "insim_core::vehicle::Vehicle::Xfg"
        if ty == "Track":
            self.notes.append("Track constant (C14)")
            return "insim_core::track::Track::We2r" if self.alt else "insim_core::track::Track::Bl1"
        if ty == "RaceLaps":
            return "RaceLaps::Practice" if self.len_mode else "verif_any_racelaps()"
        if ty in ("Fuel", "Fuel200"):
            return f"{ty}::No" if self.len_mode else f"verif_any_{ty.lower()}()"
        if ty == "CimMode":
            return "CimMode::Options" if self.len_mode else "verif_any_cimmode()"
        if ty == "SmallType":
            return "SmallType::None" if self.len_mode else "verif_any_smalltype()"
        if ty == "ConInfo" and self.len_mode:
            self.depth += 1
            r = self.struct_value(ty)
            self.depth -= 1
            return r
        it = d.get(ty)
        if it is None:
            raise Unsupported(f"unknown type {ty}")
        if it.kind == "tuple_struct":
            if len(it.fields) == 1 and it.fields[0] in INTS:
                return f"{ty}(0)" if const else f"{ty}(kani::any::<{it.fields[0]}>())"
            raise Unsupported(f"tuple struct {ty}")
        if it.kind == "bitflags":
            # type inferred from the field (some flag types are not exported by name)
            return (f"bitflags::Flags::from_bits_truncate(0{it.repr})" if const
                    else f"bitflags::Flags::from_bits_truncate(kani::any::<{it.repr}>())")
        if it.kind == "enum":
            if any(v.payload or v.named for v in it.variants):
                raise Unsupported(f"data-carrying enum {ty} has no value generator")
            self.notes.append("derived enum bytes constant (enum tables)")
            return self.enum_const(ty)
        if it.kind == "struct":
            return self.struct_value(ty)
        raise Unsupported(f"type {ty}")

    def struct_fields(self, name):
        it = self.d[name]
        out = []
        for f in it.fields:
            a = f.attr_text()
            if re.search(r"#\[bw\(calc", a) or re.search(r"br\(temp\)", a):
                continue     # not a member of the struct under #[binrw]
            out.append(f)
        return out

    def struct_value(self, name: str) -> str:
        it = self.d[name]
        parts = []
        fields = self.struct_fields(name)
        if any(not f.vis.startswith("pub") for f in fields):
            # private fields (hash-set backed kinds): start from Default and assign the public ones
            assigns = []
            for f in fields:
                if not f.vis.startswith("pub"):
                    if f.ty.startswith("IndexSet<"):
                        self.notes.append("hash set empty")
                        self.needs_random_state = True
                        continue
                    raise Unsupported(f"private field {name}.{f.name}: {f.ty}")
                assigns.append(f"v.{f.name} = {self.value(f.ty, f.attr_text(), f'{name}.{f.name}')};")
            return f"{{ let mut v = <{name}>::default(); " + " ".join(assigns) + " v }"
        for f in fields:
            expr = self.value(f.ty, f.attr_text(), f"{name}.{f.name}")
            # declared write-side assertions of the struct (representable range)
            parts.append(f"{f.name}: {expr}")
        return f"{name} {{ " + ", ".join(parts) + " }"

    # ------------------------------------------------------------ equality
    def veq(self, ty: str, a: str, b: str) -> str:
        d = self.d
        ty = ty.strip()
        if ty in INTS or ty in ("bool", "char", "Duration", "String", "Ipv4Addr"):
            return f"({a} == {b})"
        if ty == "f32":
            return f"({a}.to_bits() == {b}.to_bits())"
        m = re.match(r"Vec<(.+)>$", ty)
        if m:
            fn = self.veq_fn_for(m.group(1))
            return f"({a}.len() == {b}.len() && {a}.iter().zip({b}.iter()).all(|(x, y)| {fn}(x, y)))"
        m = re.match(r"\[(.+);\s*(\d+)\]$", ty)
        if m:
            fn = self.veq_fn_for(m.group(1).strip())
            n = int(m.group(2))
            return "(" + " && ".join(f"{fn}(&{a}[{i}], &{b}[{i}])" for i in range(n)) + ")"
        m = re.match(r"Point<(.+)>$", ty)
        if m:
            return f"({a}.x == {b}.x && {a}.y == {b}.y && {a}.z == {b}.z)"
        if ty in ("Vehicle", "Track"):
            return f"({a} == {b})"
        fn = self.veq_fn_for(ty)
        return f"{fn}(&{a}, &{b})"

    def veq_fn_for(self, ty: str) -> str:
        ty = ty.strip()
        key = re.sub(r"[^A-Za-z0-9]", "_", ty)
        fn = f"veq_{key}"
        if key in self.veq_fns:
            return fn
        self.veq_fns[key] = None   # recursion guard
        d = self.d
        if ty in INTS or ty in ("bool", "char", "Duration", "String", "Ipv4Addr", "Vehicle", "Track") or \
                ty == "f32" or ty.startswith("Vec<") or ty.startswith("[") or ty.startswith("Point<"):
            body = self.veq(ty, "(*a)", "(*b)")
            rty = {"Vehicle": "insim_core::vehicle::Vehicle", "Track": "insim_core::track::Track",
                   "Ipv4Addr": "std::net::Ipv4Addr"}.get(ty, ty)
            rty = re.sub(r"Point<", "insim_core::point::Point<", rty)
            self.veq_fns[key] = f"fn {fn}(a: &{rty}, b: &{rty}) -> bool {{ {body} }}\n"
            return fn
        it = d.get(ty)
        if it is None:
            raise Unsupported(f"no equality for {ty}")
        if ty == "PlcAllowedCarsSet":
            self.veq_fns[key] = f"fn {fn}(a: &{ty}, b: &{ty}) -> bool {{ a.bits() == b.bits() }}\n"
            return fn
        if it.kind == "tuple_struct":
            self.veq_fns[key] = f"fn {fn}(a: &{ty}, b: &{ty}) -> bool {{ a.0 == b.0 }}\n"
        elif it.kind == "bitflags":
            self.veq_fns[key] = None
            return "veq_flags"
        elif it.kind == "enum":
            arms = []
            for v in it.variants:
                if v.payload:
                    xs = ", ".join(f"x{i}" for i in range(len(v.payload)))
                    ys = ", ".join(f"y{i}" for i in range(len(v.payload)))
                    conds = " && ".join(self.veq(t, f"(*x{i})", f"(*y{i})") for i, t in enumerate(v.payload))
                    arms.append(f"        ({ty}::{v.name}({xs}), {ty}::{v.name}({ys})) => {conds},")
                elif v.named:
                    xs = ", ".join(f"{f.name}: x_{f.name}" for f in v.named)
                    ys = ", ".join(f"{f.name}: y_{f.name}" for f in v.named)
                    conds = " && ".join(self.veq(f.ty, f"(*x_{f.name})", f"(*y_{f.name})") for f in v.named)
                    arms.append(f"        ({ty}::{v.name} {{ {xs} }}, {ty}::{v.name} {{ {ys} }}) => {conds},")
                else:
                    arms.append(f"        ({ty}::{v.name}, {ty}::{v.name}) => true,")
            self.veq_fns[key] = (f"fn {fn}(a: &{ty}, b: &{ty}) -> bool {{\n    match (a, b) {{\n" + "\n".join(arms) +
                                 "\n        _ => false,\n    }\n}\n")
        elif it.kind == "struct":
            conds = []
            for f in self.struct_fields(ty):
                if f.ty.startswith("IndexSet<"):
                    conds.append(f"(a.{f.name} == b.{f.name})")
                else:
                    conds.append(self.veq(f.ty, f"a.{f.name}", f"b.{f.name}"))
            self.veq_fns[key] = f"fn {fn}(a: &{ty}, b: &{ty}) -> bool {{\n    " + "\n    && ".join(conds or ["true"]) + "\n}\n"
        else:
            raise Unsupported(f"no equality for {ty}")
        return fn


SUPPORT = r"""
use std::{io::Cursor, time::Duration};
use insim_core::binrw::{BinRead, BinWrite};
use indexmap::IndexSet;
use insim_core::{license::License, wind::Wind};

fn veq_flags<F: bitflags::Flags>(a: &F, b: &F) -> bool
where
    F::Bits: PartialEq,
{
    a.bits() == b.bits()
}

fn verif_fmt_ok(_o: &mut dyn core::fmt::Write, _a: core::fmt::Arguments<'_>) -> core::fmt::Result {
    Ok(())
}

/// `RandomState::new()` reads OS randomness (a syscall Kani cannot model): fixed keys instead.
#[allow(unsafe_code)]
fn verif_random_state() -> std::hash::RandomState {
    unsafe { core::mem::transmute::<(u64, u64), std::hash::RandomState>((0x0123_4567_89ab_cdef, 0x0f1e_2d3c_4b5a_6978)) }
}

/// Size contract of the fixed-width text reader (it reads `<[u8; SIZE]>`): consumes exactly
/// SIZE bytes. The decoded text is not modelled (text conversion: C10/C11); harnesses that use
/// this stub keep every text field empty.
fn verif_parse_text_model<const SIZE: usize, R: std::io::Read + std::io::Seek>(
    reader: &mut R,
    _endian: insim_core::binrw::Endian,
    _args: (bool,),
) -> insim_core::binrw::BinResult<String> {
    let _ = reader.seek(std::io::SeekFrom::Current(SIZE as i64))?;
    Ok(String::new())
}

/// Size contract of the until-EOF text reader: consumes the rest of the frame.
fn verif_parse_text_eof_model<R: std::io::Read + std::io::Seek>(
    reader: &mut R,
    _endian: insim_core::binrw::Endian,
    _args: (bool,),
) -> insim_core::binrw::BinResult<String> {
    let _ = reader.seek(std::io::SeekFrom::End(0))?;
    Ok(String::new())
}

/// every race length that has a wire value (InSim table; C15 proves the codec against it)
fn verif_any_racelaps() -> RaceLaps {
    let k: u8 = kani::any();
    let n: usize = kani::any();
    match k % 4 {
        0 => RaceLaps::Practice,
        1 => { kani::assume(n >= 1 && n <= 99); RaceLaps::Laps(n) },
        2 => { kani::assume(n <= 90); RaceLaps::Laps(100 + 10 * n) },
        _ => { kani::assume(n >= 1 && n <= 48); RaceLaps::Hours(n) },
    }
}

fn verif_any_fuel() -> Fuel {
    let v: u8 = kani::any();
    if kani::any() { kani::assume(v != 255); Fuel::Percentage(v) } else { Fuel::No }
}

fn verif_any_fuel200() -> Fuel200 {
    let v: u8 = kani::any();
    if kani::any() { kani::assume(v != 255); Fuel200::Percentage(v) } else { Fuel200::No }
}
"""


def cim_support(d):
    """any_cimmode generated from the three sub-mode enums' declarations."""
    out = []
    for sub in ("CimSubModeNormal", "CimSubModeGarage", "CimSubModeShiftU"):
        it = d.get(sub)
        if it is None:
            raise Undecided(f"lost anchor: {sub}")
        n = len(it.variants)
        arms = "\n".join(f"        {i} => {sub}::{v.name}," for i, v in enumerate(it.variants[:-1]))
        out.append(f"fn verif_any_{sub.lower()}() -> {sub} {{\n    let k: u8 = kani::any();\n    kani::assume(k < {n});\n"
                   f"    match k {{\n{arms}\n        _ => {sub}::{it.variants[-1].name},\n    }}\n}}\n")
    out.append("""fn verif_any_cimmode() -> CimMode {
    let k: u8 = kani::any();
    match k % 7 {
        0 => CimMode::Normal(verif_any_cimsubmodenormal()),
        1 => CimMode::Options,
        2 => CimMode::HostOptions,
        3 => CimMode::Garage(verif_any_cimsubmodegarage()),
        4 => CimMode::CarSelect,
        5 => CimMode::TrackSelect,
        _ => CimMode::ShiftU { submode: verif_any_cimsubmodeshiftu(), seltype: kani::any() },
    }
}
""")
    return "".join(out)


def small_support(d):
    it = d.get("SmallType")
    if it is None:
        raise Undecided("lost anchor: SmallType")
    names = [v.name for v in it.variants]
    expected = ["None", "Ssp", "Ssg", "Vta", "Tms", "Stp", "Rtp", "Nli", "Alc", "Lcs", "Lcl"]
    if names != expected:
        raise Undecided(f"SmallType variants changed: {names}")
    return """/// every IS_SMALL value except ALC (hash-set backed: unsupported in Kani, own obligation)
fn verif_any_smalltype() -> SmallType {
    let k: u8 = kani::any();
    let v: u32 = kani::any();
    match k % 10 {
        0 => SmallType::None,
        1 => SmallType::Ssp(Duration::from_millis(v as u64 * 10)),
        2 => SmallType::Ssg(Duration::from_millis(v as u64 * 10)),
        3 => SmallType::Vta(VtnAction::@VTN@),
        4 => SmallType::Tms(kani::any()),
        5 => SmallType::Stp(Duration::from_millis(v as u64 * 10)),
        6 => SmallType::Rtp(Duration::from_millis(v as u64 * 10)),
        7 => SmallType::Nli(Duration::from_millis(v as u64)),
        8 => SmallType::Lcs(LcsFlags::from_bits_truncate(v)),
        _ => SmallType::Lcl(LclFlags::from_bits_truncate(v)),
    }
}
""".replace("@VTN@", d["VtnAction"].variants[0].name)


# per-kind overrides: extra `kani::assume` lines on the generated value `p`
# (the declared representable range of the kind, from its bw(assert) attributes)
def repr_assumes(d, name, var="p", depth=0):
    """Turn #[bw(assert(*field <= N))] attributes into assumptions on the value."""
    out = []
    it = d.get(name)
    if it is None or it.kind != "struct":
        return out
    for a in it.attrs:
        for m in re.finditer(r"bw\(assert\(\s*\*([a-z_0-9]+)\s*<=\s*(\d+)", a):
            out.append(f"{var}.{m.group(1)} <= {m.group(2)}")
    return out


def gen_kind(d, variant, ty, magic, *, count, alt, props, tier, suffix):
    g = KindGen(d, count=count, alt=alt, len_mode=("C01" not in props))
    it = d.get(ty)
    if it is None or it.kind != "struct":
        raise Unsupported(f"{ty} is not a struct")
    has_vec = any(re.match(r"Vec<", f.ty) for f in it.fields)
    val = g.struct_value(ty)
    eq = g.veq_fn_for(ty) if "C01" in props else None
    assumes = []
    # representable ranges declared on nested structs / the struct itself
    for f in g.struct_fields(ty):
        m = re.match(r"\[(.+);\s*(\d+)\]$", f.ty)
        inner = None
        if m:
            inner = (m.group(1).strip(), int(m.group(2)))
        m2 = re.match(r"Vec<(.+)>$", f.ty)
        if inner:
            for i in range(inner[1]):
                assumes += repr_assumes(d, inner[0], f"p.{f.name}[{i}]")
        elif m2:
            for i in range(count):
                assumes += repr_assumes(d, m2.group(1), f"p.{f.name}[{i}]")
        elif f.ty == "ConInfo":
            for nib in ("thr", "brk", "clu", "han", "gearsp"):
                assumes.append(f"p.{f.name}.{nib} <= 15")
        if "strip_reserved_bits" in f.attr_text():
            assumes.append(f"p.{f.name} <= 0x0FFF")   # low 12 bits carry the value, the rest is reserved
    assumes += repr_assumes(d, ty, "p")
    assume_txt = "".join(f"    kani::assume({a});\n" for a in assumes)
    notes = sorted(set(g.notes))
    has_vec_note = f"element count fixed at {count}" if has_vec else None
    common = dict(variant=variant, ty=ty, magic=magic, it=it, val=val, eq=eq, assume_txt=assume_txt, notes=notes,
                  bounded=has_vec_note, suffix=suffix, tier=tier,
                  rs_stub=("#[kani::stub(std::hash::RandomState::new, verif_random_state)]\n" if g.needs_random_state else ""))
    return common, g


INTRACTABLE_RT = {
    "String": "text field: the reader's NUL search + codepage decoding over bytes that CBMC cannot constant-fold does not terminate (measured: every text-bearing kind times out, DESIGN K13)",
    "Vec": "counted vector: binrw's repeat/collect reader does not terminate in CBMC even at count 0 (measured, DESIGN K21)",
    "array": "array field: binrw's array_init reader defeats constant folding, the per-element error arms stay live (measured)",
    "leaf": "hand-written leaf codec inside a derived struct: its error arm cannot be pruned and CBMC unwinds the recursive drop glue of binrw::Error without bound (measured, DESIGN K1/K18); the leaf codec has its own full-domain obligation",
}
LEAF_TYPES = {"Vehicle", "Track", "ConInfo", "CimMode", "SmallType", "GameVersion"}


MEASURED_SLOW = {
    "Msl": "measured: the round trip with a 128-byte fixed text field does not finish in 600 s (96 bytes: 83 s)",
    "Rip": "measured: two time fields + two enums + a 64-byte text field do not finish in 600 s",
}


def rt_intractable(d, ty, seen=None):
    """Reason why the full round trip of struct `ty` is out of CBMC's reach, or None."""
    if seen is None and ty in MEASURED_SLOW:
        return MEASURED_SLOW[ty]
    seen = seen or set()
    if ty in seen:
        return None
    seen.add(ty)
    it = d.get(ty)
    if it is None or it.kind != "struct":
        return None
    for f in it.fields:
        t = f.ty
        if t == "String":
            if "binrw_parse_codepage_string" in f.attr_text():
                continue    # tractable with the text reader known by its size contract (stub)
            return INTRACTABLE_RT["String"]
        if t.startswith("Vec<") or t.startswith("IndexSet<"):
            return INTRACTABLE_RT["Vec"]
        if t.startswith("["):
            return INTRACTABLE_RT["array"]
        if t in LEAF_TYPES:
            return INTRACTABLE_RT["leaf"] + f" ({t})"
        r = rt_intractable(d, t, seen)
        if r:
            return r
    return None


def render_rt(c):
    ty, variant, magic, it = c["ty"], c["variant"], c["magic"], c["it"]
    hname = f"kind_{variant.lower()}_rt_{c['suffix']}"
    notes = c["notes"]
    stmt = (f"packet kind {variant} ({ty}, type {magic}): for ALL values of its integer / id / flag-word / bool / f32 / nibble fields "
            f"jointly{' (with ' + '; '.join(notes) + ')' if notes else ''}: the packet encodes; decoding the bytes succeeds, consumes "
            f"them completely and yields a field-by-field equal packet; re-encoding the decoded packet yields the identical bytes")
    has_text = any(f.ty == "String" for f in it.fields)
    stubs = ""
    if has_text:
        stmt += ("; every text field is empty and the text READER is replaced by a model of its size contract (fixed width: consumes "
                 "exactly N bytes; until-EOF: consumes the rest) - text content is C10/C11")
        stubs = ("#[kani::stub(insim_core::string::binrw_parse_codepage_string, verif_parse_text_model)]\n"
                 "#[kani::stub(insim_core::string::binrw_parse_codepage_string_until_eof, verif_parse_text_eof_model)]\n")
    meta = [f"//@ id: {hname}", "//@ prop: C01", f"//@ tier: {c['tier']}",
            f"//@ functions: {it.file} <{ty} as BinWrite>::write_options; {it.file} <{ty} as BinRead>::read_options",
            f"//@ statement: {stmt}", "//@ covers: 1", "//@ timeout: 900"]
    return hname, f"""
{chr(10).join(meta)}
#[kani::proof]
#[kani::stub(core::fmt::write, verif_fmt_ok)]
{stubs}{c['rs_stub']}fn {hname}() {{
    let p = {c['val']};
{c['assume_txt']}    let mut w = Cursor::new(Vec::new());
    let r = p.write_le(&mut w);
    assert!(r.is_ok(), "a representable packet encodes");
    let bytes = w.into_inner();
    let mut c = Cursor::new(&bytes[..]);
    let r2 = <{ty}>::read_le(&mut c);
    assert!(r2.is_ok(), "the encoder's output decodes");
    assert!(c.position() as usize == bytes.len(), "decoding consumes the frame completely");
    if let Ok(p2) = &r2 {{
        assert!({c['eq']}(&p, p2), "decoded packet equals the encoded one, field by field");
        let mut w2 = Cursor::new(Vec::new());
        let r3 = p2.write_le(&mut w2);
        assert!(r3.is_ok(), "a decoded packet re-encodes");
        let bytes2 = w2.into_inner();
        assert!(bytes2 == bytes, "re-encoding yields the identical bytes");
        core::mem::forget(r3);
    }}
    kani::cover!(r2.is_ok(), "round trip completed");
    core::mem::forget(r2);
    core::mem::forget(r);
    core::mem::forget(p);
}}
"""


def render_len(c, count_field=None, count=0):
    ty, variant, magic, it = c["ty"], c["variant"], c["magic"], c["it"]
    hname = f"kind_{variant.lower()}_len_{c['suffix']}"
    notes = c["notes"]
    stmt = (f"packet kind {variant} ({ty}, type {magic}): for ALL values of its symbolic fields"
            f"{' (with ' + '; '.join(notes) + ')' if notes else ''}: encoding succeeds and the frame (body + size byte + type byte) is a "
            f"multiple of 4 bytes within 4..=1020" + (f"; the element-count byte equals the {count} element(s) that follow" if count_field else ""))
    meta = [f"//@ id: {hname}", "//@ prop: C03", f"//@ tier: {c['tier']}",
            f"//@ functions: {it.file} <{ty} as BinWrite>::write_options",
            f"//@ statement: {stmt}", "//@ covers: 1", f"//@ timeout: {600 if count < 10 else 1500}"]
    if c["bounded"]:
        meta.append(f"//@ bounded: {c['bounded']}")
    # a packet with more elements than fit 1020 bytes is refused by Mode::encode_length (its
    # contract, C03/verus): the per-kind obligation is then alignment and the count byte only
    limit = ('    assert!(frame >= 4 && frame <= 1020, "frame length within 4..=1020");' if count < 10
             else '    assert!(frame >= 4, "frame length at least 4");')
    cnt = ""
    if count_field is not None:
        cnt = f'    assert!(bytes[{count_field}] as usize == {count}, "the element-count byte equals the number of elements that follow");\n'
    # a computed pad (pad_after = <expression>) is written by a loop whose trip count CBMC does
    # not constant-fold: bound it (unwinding assertions stay on, so the bound is checked)
    unwind = ""
    if any(re.search(r"pad_(after|before)\s*=\s*[^0-9\s]", f.attr_text()) for f in it.fields):
        unwind = f"#[kani::unwind({max(10, count + 6)})]\n"
    return hname, f"""
{chr(10).join(meta)}
#[kani::proof]
#[kani::stub(core::fmt::write, verif_fmt_ok)]
{unwind}{c['rs_stub']}fn {hname}() {{
    let p = {c['val']};
{c['assume_txt']}    let mut w = Cursor::new(Vec::new());
    let r = p.write_le(&mut w);
    assert!(r.is_ok(), "a representable packet encodes");
    let bytes = w.into_inner();
    let frame = bytes.len() + 2;
    assert!(frame % 4 == 0, "frame length is a multiple of 4");
{limit}
{cnt}    kani::cover!(r.is_ok(), "encoded");
    core::mem::forget(r);
    core::mem::forget(p);
}}
"""


def count_byte_offset(d, ty):
    """Offset (in the body written by K::write) of the #[bw(calc = X.len() as u8)] count byte."""
    it = d[ty]
    off = 0
    for f in it.fields:
        a = f.attr_text()
        m = re.search(r"pad_before\s*=\s*(\d+)", a)
        if m:
            off += int(m.group(1))
        if re.search(r"bw\(calc\s*=", a):
            return off
        size = {"u8": 1, "RequestId": 1, "ConnectionId": 1, "PlayerId": 1}.get(f.ty)
        if size is None:
            return None
        off += size
        m = re.search(r"pad_after\s*=\s*(\d+)", a)
        if m:
            off += int(m.group(1))
    return None


def gen_kinds(repo: Path, prop: str, tier: str):
    d = decls(repo)
    kinds = packet_kinds(d)
    bodies = []
    veqs = {}
    uncovered = []
    for variant, ty, magic in kinds:
        it = d.get(ty)
        has_vec = it is not None and any(re.match(r"Vec<", f.ty) for f in it.fields)
        why_rt = rt_intractable(d, ty)
        # ---- C01 round trip (tractable kinds only)
        if why_rt is None:
            for cf in (dict(count=0, alt=False, suffix="a", tier="quick"), dict(count=0, alt=True, suffix="b", tier="thorough")):
                try:
                    c, g = gen_kind(d, variant, ty, magic, count=0, alt=cf["alt"], props=["C01"], tier=cf["tier"], suffix=cf["suffix"])
                except Unsupported as e:
                    uncovered.append(("C01", variant, str(e)))
                    break
                hname, body = render_rt(c)
                bodies.append(body)
                veqs.update({k: v for k, v in g.veq_fns.items() if v})
        else:
            uncovered.append(("C01", variant, why_rt))
        # ---- C03 frame length / count byte (write side only: all kinds whose value can be built)
        counts = [0, 1, 2, 3, 17, 40] if has_vec else [0]   # hash-set kinds (Mal, Ipb, Plc): empty set only
        if has_vec and any(re.search(r"pad_(after|before)\s*=\s*[^0-9\s]", f.attr_text()) for f in it.fields):
            counts = [0, 1, 2, 3, 17]   # computed pad + 40 elements does not finish (measured)
        if has_vec:
            el = next(re.match(r"Vec<(.+)>$", f.ty).group(1) for f in it.fields if re.match(r"Vec<", f.ty))
            eit = d.get(el)
            if eit is not None and any(f.ty == "String" for f in eit.fields):
                counts = [0, 1, 2]   # text-bearing elements: 3 elements do not finish (measured)
        for k in counts:
            try:
                c, g = gen_kind(d, variant, ty, magic, count=k, alt=False, props=["C03"],
                                tier=("thorough" if k >= 40 else "quick"), suffix=f"n{k}")
            except Unsupported as e:
                if k == 0:
                    uncovered.append(("C03", variant, str(e)))
                break
            cb = count_byte_offset(d, ty) if has_vec else None
            hname, body = render_len(c, cb, k)
            bodies.append(body)
    src = HEADER + SUPPORT + cim_support(d) + small_support(d) + "\n" + "".join(veqs[k] for k in sorted(veqs)) + "".join(bodies)
    hs = parse_harnesses("insim", "verif_gen_kinds", src)
    hs = [h for h in hs if prop in h.props]
    gen_kinds.uncovered = uncovered
    return "insim", "verif_gen_kinds", src, hs
