"""Parse the declarations of the /repo snapshot that harness generators depend
on: structs (named + tuple), enums (variants, discriminants, payloads),
bitflags blocks, and the attributes attached to items and fields.

Text level, brace aware (same scanner as the Verus extractor). Generators that
depend on the *shape* of declarations call this on every run, so a new variant
or field is picked up instead of silently ignored.
"""
from __future__ import annotations

import re
from dataclasses import dataclass, field
from pathlib import Path

from .common import Undecided
from .extract import scan_balanced, find_body_open


@dataclass
class Field:
    name: str
    ty: str
    attrs: list
    vis: str = ""

    def attr_text(self):
        return " ".join(self.attrs)


@dataclass
class Variant:
    name: str
    payload: list            # list of type strings (tuple variant), [] for unit
    disc: str | None         # explicit discriminant text
    attrs: list
    named: list = field(default_factory=list)   # named fields (struct variant)


@dataclass
class Item:
    kind: str                # struct | tuple_struct | enum | bitflags
    name: str
    attrs: list
    file: str
    line: int
    fields: list = field(default_factory=list)      # struct: Field; tuple_struct: types
    variants: list = field(default_factory=list)
    flags: list = field(default_factory=list)       # bitflags: (name, expr)
    repr: str | None = None                         # bitflags underlying / enum repr

    def attr_text(self):
        return " ".join(self.attrs)

    def has_attr(self, pat):
        return re.search(pat, self.attr_text()) is not None


def strip_comments(src: str) -> str:
    """Remove // and /* */ comments (keeps newlines for line numbers), leaves
    string literals alone."""
    out = []
    i = 0
    n = len(src)
    while i < n:
        c = src[i]
        if src.startswith("//", i):
            j = src.find("\n", i)
            j = n if j < 0 else j
            i = j
            continue
        if src.startswith("/*", i):
            j = src.find("*/", i)
            j = n - 2 if j < 0 else j
            out.append("\n" * src.count("\n", i, j + 2))
            i = j + 2
            continue
        if c == '"':
            j = i + 1
            while j < n:
                if src[j] == "\\":
                    j += 2
                    continue
                if src[j] == '"':
                    break
                j += 1
            out.append(src[i:j + 1])
            i = j + 1
            continue
        if c == "'":
            m = re.match(r"'(\\.[^']*|[^'\\])'", src[i:])
            if m:
                out.append(m.group(0))
                i += m.end()
                continue
        out.append(c)
        i += 1
    return "".join(out)


def split_top(s: str, sep: str = ","):
    """Split on `sep` at nesting depth 0 of () [] {} <>."""
    parts = []
    depth = 0
    cur = []
    i = 0
    while i < len(s):
        c = s[i]
        if c in "([{":
            depth += 1
        elif c in ")]}":
            depth -= 1
        elif c == "<":
            depth += 1
        elif c == ">" and (i == 0 or s[i - 1] not in "-="):
            depth -= 1
        elif c == '"':
            j = i + 1
            while j < len(s) and s[j] != '"':
                j += 2 if s[j] == "\\" else 1
            cur.append(s[i:j + 1])
            i = j + 1
            continue
        elif c == "'":
            m = re.match(r"'(\\.[^']*|[^'\\])'", s[i:])
            if m:
                cur.append(m.group(0))
                i += m.end()
                continue
        if c == sep and depth == 0:
            parts.append("".join(cur))
            cur = []
        else:
            cur.append(c)
        i += 1
    if "".join(cur).strip():
        parts.append("".join(cur))
    return parts


ATTR_RE = re.compile(r"#\s*\[")


def take_attrs(s: str):
    """Strip leading #[...] attributes from s; return (attrs, rest)."""
    attrs = []
    s = s.lstrip()
    while s.startswith("#"):
        m = ATTR_RE.match(s)
        if not m:
            break
        end = scan_balanced(s, m.end() - 1, "[", "]")
        attrs.append(re.sub(r"\s+", " ", s[:end]))
        s = s[end:].lstrip()
    return attrs, s


def preceding_attrs(src: str, pos: int):
    """Attributes immediately before position pos (walk backwards)."""
    attrs = []
    i = pos
    while True:
        j = i
        while j > 0 and src[j - 1] in " \t\r\n":
            j -= 1
        if j > 0 and src[j - 1] == "]":
            # find matching '#['
            depth = 0
            k = j - 1
            while k >= 0:
                if src[k] == "]":
                    depth += 1
                elif src[k] == "[":
                    depth -= 1
                    if depth == 0:
                        break
                k -= 1
            if k > 0 and src[k - 1] == "#":
                attrs.insert(0, re.sub(r"\s+", " ", src[k - 1:j]))
                i = k - 1
                continue
        break
    return attrs


def parse_fields(body: str):
    fields = []
    for part in split_top(body):
        attrs, rest = take_attrs(part)
        rest = rest.strip()
        if not rest:
            continue
        m = re.match(r"(pub(?:\s*\([^)]*\))?\s+)?([A-Za-z_][A-Za-z0-9_]*)\s*:\s*(.+)$", rest, re.S)
        if not m:
            raise Undecided(f"cannot parse field: {rest[:80]}")
        fields.append(Field(name=m.group(2), ty=re.sub(r"\s+", " ", m.group(3).strip()), attrs=attrs,
                            vis=(m.group(1) or "").strip()))
    return fields


def parse_variants(body: str):
    vs = []
    for part in split_top(body):
        attrs, rest = take_attrs(part)
        rest = rest.strip()
        if not rest:
            continue
        m = re.match(r"([A-Za-z_][A-Za-z0-9_]*)\s*(.*)$", rest, re.S)
        name, tail = m.group(1), m.group(2).strip()
        payload, disc, named = [], None, []
        if tail.startswith("("):
            end = scan_balanced(tail, 0, "(", ")")
            inner = tail[1:end - 1]
            for p in split_top(inner):
                a, r = take_attrs(p)
                r = re.sub(r"^pub(\s*\([^)]*\))?\s+", "", r.strip())
                if r:
                    payload.append(re.sub(r"\s+", " ", r))
            tail = tail[end:].strip()
        elif tail.startswith("{"):
            end = scan_balanced(tail, 0, "{", "}")
            named = parse_fields(tail[1:end - 1])
            tail = tail[end:].strip()
        if tail.startswith("="):
            disc = tail[1:].strip()
        vs.append(Variant(name=name, payload=payload, disc=disc, attrs=attrs, named=named))
    return vs


ITEM_RE = re.compile(r"\b(pub(?:\s*\([^)]*\))?\s+)?(struct|enum)\s+([A-Za-z_][A-Za-z0-9_]*)")


def parse_file(path: Path, rel: str):
    raw = path.read_text()
    src = strip_comments(raw)
    items = []
    # bitflags! blocks
    for m in re.finditer(r"\bbitflags!\s*\{", src):
        end = scan_balanced(src, m.end() - 1, "{", "}")
        inner = src[m.end():end - 1]
        for sm in re.finditer(r"\bpub\s+struct\s+([A-Za-z_][A-Za-z0-9_]*)\s*:\s*([a-z0-9]+)\s*\{", inner):
            send = scan_balanced(inner, sm.end() - 1, "{", "}")
            body = inner[sm.end():send - 1]
            attrs = preceding_attrs(inner, sm.start())
            flags = []
            for cm in re.finditer(r"\bconst\s+([A-Z0-9_a-z]+)\s*=\s*([^;]+);", body):
                flags.append((cm.group(1), re.sub(r"\s+", " ", cm.group(2).strip())))
            items.append(Item(kind="bitflags", name=sm.group(1), attrs=attrs, file=rel,
                              line=src.count("\n", 0, m.start()) + 1, flags=flags, repr=sm.group(2)))
    # blank out bitflags blocks so their inner `struct` is not seen again
    def blank(mo):
        end = scan_balanced(src, mo.end() - 1, "{", "}")
        return end
    spans = []
    for m in re.finditer(r"\bbitflags!\s*\{", src):
        spans.append((m.start(), scan_balanced(src, m.end() - 1, "{", "}")))
    # skip #[cfg(test)] mod tests { ... }
    for m in re.finditer(r"#\[cfg\(test\)\]\s*mod\s+\w+\s*\{", src):
        spans.append((m.start(), scan_balanced(src, m.end() - 1, "{", "}")))

    def in_span(p):
        return any(a <= p < b for a, b in spans)

    for m in ITEM_RE.finditer(src):
        if in_span(m.start()):
            continue
        kind, name = m.group(2), m.group(3)
        attrs = preceding_attrs(src, m.start())
        line = src.count("\n", 0, m.start()) + 1
        # find what follows the name (generics skipped)
        i = m.end()
        while i < len(src) and src[i] in " \t\r\n":
            i += 1
        if i < len(src) and src[i] == "<":
            i = scan_balanced(src, i, "<", ">")
            while i < len(src) and src[i] in " \t\r\n":
                i += 1
        if kind == "struct" and i < len(src) and src[i] == "(":
            end = scan_balanced(src, i, "(", ")")
            tys = []
            for p in split_top(src[i + 1:end - 1]):
                a, r = take_attrs(p)
                r = re.sub(r"^pub(\s*\([^)]*\))?\s+", "", r.strip())
                if r:
                    tys.append(re.sub(r"\s+", " ", r))
            items.append(Item(kind="tuple_struct", name=name, attrs=attrs, file=rel, line=line, fields=tys))
            continue
        if i < len(src) and src[i] == ";":
            items.append(Item(kind="struct", name=name, attrs=attrs, file=rel, line=line))
            continue
        try:
            brace = find_body_open(src, i)
        except Undecided:
            continue
        end = scan_balanced(src, brace, "{", "}")
        body = src[brace + 1:end - 1]
        if kind == "struct":
            items.append(Item(kind="struct", name=name, attrs=attrs, file=rel, line=line, fields=parse_fields(body)))
        else:
            it = Item(kind="enum", name=name, attrs=attrs, file=rel, line=line, variants=parse_variants(body))
            rm = re.search(r"repr\((u8|u16|u32|i8|i16|i32)\)", it.attr_text())
            it.repr = rm.group(1) if rm else None
            items.append(it)
    return items


def parse_tree(repo: Path, rel_dirs):
    decls = {}
    for rd in rel_dirs:
        base = repo / rd
        files = [base] if base.is_file() else sorted(base.rglob("*.rs"))
        for f in files:
            rel = str(f.relative_to(repo))
            for it in parse_file(f, rel):
                if it.name in decls and decls[it.name].file != it.file:
                    # keep both under a qualified key too
                    decls[f"{rel}::{it.name}"] = it
                    continue
                decls[it.name] = it
    return decls


def load(repo: Path):
    return parse_tree(repo, ["insim/src/insim", "insim/src/relay", "insim/src/identifiers",
                             "insim/src/packet.rs", "insim_core/src"])
