"""C02: wire layout against the independent specification table /verif/spec/insim_v9.json.

Three generated obligation families (all on the real compiled code, write side, which is
cheap for every kind; the read side of the same kinds is tied to it by the C01 round trip):

* constants   - every enumerant / flag constant the table lists equals the table's number
* header      - `Packet::K(p)` is written as [type number][ReqI]...: bytes 1 and 2 of every
                frame (byte 0, the size, is Codec::encode's contract, C03)
* layout      - for the kinds in the table: every field's bytes sit at the table's offset,
                in little-endian order / the table's resolution, and every spare byte is 0
"""
from __future__ import annotations

import json
import re
from pathlib import Path

from .common import ROOT, Undecided
from .gen import HEADER, decls, packet_kinds, chunks
from .kani import parse_harnesses
from .kinds import KindGen, Unsupported, SUPPORT, cim_support, small_support, repr_assumes

SPEC = ROOT / "spec" / "insim_v9.json"
INT_W = {"u8": 1, "i8": 1, "u16": 2, "i16": 2, "u32": 4, "i32": 4}


HDR_SLOW = {"Res": "measured: IS_RES through the Packet writer does not finish in 900 s even with every field constant"}


def load_spec():
    return json.loads(SPEC.read_text())


def field_bytes(d, it_name, path, scale_ms):
    """(width, rust expression yielding [u8; width]) for the field `path` of struct it_name,
    derived from the field's declared type."""
    parts = path.split(".")
    ty = it_name
    expr = "p"
    attrs = ""
    for seg in parts:
        it = d.get(ty)
        if it is None and ty.startswith("Point<"):
            inner = ty[6:-1]
            ty, expr, attrs = inner, f"{expr}.{seg}", ""
            continue
        if it is None or it.kind != "struct":
            raise Undecided(f"spec table: {it_name}.{path}: {ty} is not a struct")
        f = next((x for x in it.fields if x.name == seg), None)
        if f is None:
            raise Undecided(f"spec table: field {seg} not found in {ty} (declaration changed?)")
        ty, expr, attrs = f.ty, f"{expr}.{seg}", f.attr_text()
    if ty in INT_W:
        return INT_W[ty], f"{expr}.to_le_bytes()"
    if ty == "f32":
        return 4, f"{expr}.to_bits().to_le_bytes()"
    if ty == "bool" or ty == "char":
        return 1, f"[{expr} as u8]"
    if ty == "Ipv4Addr":
        return 4, f"u32::from({expr}).to_le_bytes()"
    if ty == "Duration":
        m = re.search(r"binrw_write_duration::<\s*(u16|u32)\s*,\s*(\d+)", attrs)
        if not m:
            raise Undecided(f"spec table: Duration field {path} without helper")
        w = INT_W[m.group(1)]
        s = scale_ms.get(f"{it_name}.{path}")
        if s is None:
            raise Undecided(f"spec table: no resolution for {it_name}.{path}")
        return w, f"(({expr}.as_millis() / {s}) as {m.group(1)}).to_le_bytes()"
    if ty in ("Fuel", "Fuel200"):
        return 1, f"[match &{expr} {{ {ty}::Percentage(v) => *v, {ty}::No => 255u8 }}]"
    it = d.get(ty)
    if it is None:
        raise Undecided(f"spec table: unknown type {ty} for {path}")
    if it.kind == "tuple_struct":
        return INT_W[it.fields[0]], f"{expr}.0.to_le_bytes()"
    if it.kind == "bitflags":
        return INT_W[it.repr], f"{expr}.bits().to_le_bytes()"
    if it.kind == "enum" and it.repr == "u8":
        return 1, f"[{expr}.clone() as u8]"
    raise Undecided(f"spec table: no byte image for type {ty} ({path})")


def gen_c02(repo: Path, prop: str, tier: str):
    d = decls(repo)
    spec = load_spec()
    kinds = {v: (ty, magic) for v, ty, magic in packet_kinds(d)}
    text = [HEADER, SUPPORT, cim_support(d), small_support(d)]

    # ---------------------------------------------------------- constants
    enum_bodies = []
    flag_bodies = []
    for ename, table in sorted(spec["enums"].items()):
        it = d.get(ename)
        if it is None or it.kind != "enum":
            raise Undecided(f"spec table: enum {ename} not found")
        declared = {v.name for v in it.variants}
        missing = sorted(set(table) - declared)
        if missing:
            raise Undecided(f"spec table: {ename} has no variant(s) {missing} (renamed?)")
        body = "\n".join(f'    assert!({ename}::{v} as u8 == {n}, "{ename}::{v} is {n} on the wire");' for v, n in table.items())
        enum_bodies.append((ename, len(table), body))
    for fname, table in sorted(spec["flags"].items()):
        it = d.get(fname)
        if it is None or it.kind != "bitflags":
            raise Undecided(f"spec table: bitflags {fname} not found")
        declared = {n for n, _ in it.flags}
        missing = sorted(set(table) - declared)
        if missing:
            raise Undecided(f"spec table: {fname} has no constant(s) {missing} (renamed?)")
        # unexported flag types cannot be named from the harness module
        body = "\n".join(f'    assert!({fname}::{c}.bits() as u64 == {n}, "{fname}::{c} is bit value {n}");' for c, n in table.items())
        flag_bodies.append((fname, len(table), body))
    # one harness per family: every harness costs ~40 s of goto processing before CBMC starts
    text.append(f"""
//@ id: const_enums
//@ prop: C02
//@ functions: {'; '.join('enum ' + e for e, _, _ in enum_bodies)}
//@ statement: every enumerant the specification table lists has the table's wire value: {', '.join(f'{e} ({n})' for e, n, _ in enum_bodies)}
#[kani::proof]
fn c02_const_enums() {{
{chr(10).join(b for _, _, b in enum_bodies)}
}}
""")
    text.append(f"""
//@ id: const_flags
//@ prop: C02
//@ functions: {'; '.join('bitflags ' + e for e, _, _ in flag_bodies)}
//@ statement: every flag constant the specification table lists has the table's bit value: {', '.join(f'{e} ({n})' for e, n, _ in flag_bodies)}
#[kani::proof]
fn c02_const_flags() {{
{chr(10).join(b for _, _, b in flag_bodies)}
}}
""")
    for fname, table in sorted(spec.get("flags_unsure", {}).items()):
        why = table.get("_why", "")
        rows = {k: v for k, v in table.items() if not k.startswith("_")}
        body = "\n".join(f'    assert!({fname}::{c}.bits() as u64 == {n}, "{fname}::{c} is bit value {n}");' for c, n in rows.items())
        text.append(f"""
//@ id: const_flags_unsure_{fname.lower()}
//@ prop: C02
//@ report-only: yes
//@ functions: bitflags {fname}
//@ statement: REPORT ONLY (table row marked unsure, cannot raise a violation): {why}
#[kani::proof]
fn c02_const_flags_unsure_{fname.lower()}() {{
{body}
}}
""")
    # IS_SMALL sub-type numbers through the real writer
    sm = spec["small_subtypes"]
    small_cases = [("SmallType::None", sm["None"]), ("SmallType::Ssp(Duration::from_millis(120))", sm["Ssp"]),
                   ("SmallType::Ssg(Duration::from_millis(120))", sm["Ssg"]), ("SmallType::Vta(VtnAction::End)", sm["Vta"]),
                   ("SmallType::Tms(true)", sm["Tms"]), ("SmallType::Stp(Duration::from_millis(120))", sm["Stp"]),
                   ("SmallType::Rtp(Duration::from_millis(120))", sm["Rtp"]), ("SmallType::Nli(Duration::from_millis(120))", sm["Nli"]),
                   ("SmallType::Lcs(LcsFlags::SET_SIGNALS)", sm["Lcs"]), ("SmallType::Lcl(LclFlags::SET_SIGNALS)", sm["Lcl"])]
    body = "".join(f"""    {{
        let v = {e};
        let mut out = [0u8; 8];
        let mut w = Cursor::new(&mut out[..]);
        let r = v.write_le(&mut w);
        assert!(r.is_ok() && w.position() == 5);
        assert!(out[0] == {n}, "IS_SMALL sub-type number {n}");
        core::mem::forget(r);
        core::mem::forget(v);
    }}
""" for e, n in small_cases)
    text.append(f"""
//@ id: const_small_subtypes
//@ prop: C02
//@ functions: insim/src/insim/small.rs <SmallType as BinWrite>::write_options
//@ statement: IS_SMALL sub-type numbers: NONE {sm['None']} SSP {sm['Ssp']} SSG {sm['Ssg']} VTA {sm['Vta']} TMS {sm['Tms']} STP {sm['Stp']} RTP {sm['Rtp']} NLI {sm['Nli']} LCS {sm['Lcs']} LCL {sm['Lcl']} are what the real writer emits as the SubT byte (ALC: hash-set backed, not reachable)
//@ timeout: 900
#[kani::proof]
#[kani::stub(core::fmt::write, verif_fmt_ok)]
fn c02_const_small_subtypes() {{
{body}}}
""")

    cars = spec.get("plc_cars")
    if cars:
        order = list(cars)
        body = "\n".join(
            f'    assert!(t[{i}].1 == {cars[n]}, "IS_PLC car bit {n} is {cars[n]}");' for i, n in enumerate(order))
        text.append(f"""
//@ id: const_plc_cars
//@ prop: C02
//@ functions: insim/src/insim/plc.rs PlcAllowedCarsSet (bit constants used by from_bits_truncate / bits)
//@ statement: the 20 car bits of IS_PLC / SMALL_ALC have the specification's values: XF GTI = 1, XR GT = 2, XR GT TURBO = 4 ... FORMULA BMW FB02 = 0x80000 (the constants are private: read through an accessor appended to plc.rs in the scratch copy)
#[kani::proof]
fn c02_const_plc_cars() {{
    let t = PlcAllowedCarsSet::verif_bits_table();
{body}
}}
""")

    # ---------------------------------------------------------- header bytes (type, ReqI)
    isp = spec["packet_types"]
    hdr_kinds = []
    for v, (ty, magic) in kinds.items():
        if v not in isp:
            raise Undecided(f"spec table: no type number for packet kind {v} (new kind?)")
        if v in HDR_SLOW:
            continue
        g = KindGen(d, count=0, alt=False, len_mode=True)
        g.depth = 1     # every field constant: only the type byte and the request id matter here
        try:
            val = g.struct_value(ty)
        except Unsupported:
            continue
        it = d[ty]
        computed_pad = any(re.search(r"pad_(after|before)\s*=\s*[^0-9\s]", f.attr_text()) for f in it.fields)
        hdr_kinds.append((v, ty, val, g.needs_random_state, computed_pad))
    def hdr_block(v, val):
        return f"""    {{
        let mut p = {val};
        let reqi: u8 = kani::any();
        p.reqi = RequestId(reqi);
        let pk = Packet::{v}(p);
        let mut w = Cursor::new(Vec::new());
        let r = pk.write_le(&mut w);
        assert!(r.is_ok());
        let bytes = w.into_inner();
        assert!(bytes[0] == {isp[v]}, "{v}: packet type number {isp[v]}");
        assert!(bytes[1] == reqi, "{v}: byte 2 of the frame is the request id");
        core::mem::forget(r);
        core::mem::forget(pk);
    }}
"""

    def is_text_kind(v, ty):
        return bool(spec["kinds"].get(v, {}).get("text")) or any(f.ty == "String" for f in d[ty].fields)

    quick_hdr = [h for h in hdr_kinds if not (h[0] in spec["kinds"] and not is_text_kind(h[0], h[1]))]
    thorough_hdr = [h for h in hdr_kinds if h not in quick_hdr]
    # quick: 4 kinds per harness (each harness costs ~40 s of goto processing before CBMC starts);
    # kinds with a computed pad or a hash set get their own harness (unwind bound / stub)
    special = [h for h in quick_hdr if h[3] or h[4]]
    plain = [h for h in quick_hdr if not (h[3] or h[4])]
    groups = [[h] for h in special] + chunks(plain, 4)
    groups += [[h] for h in thorough_hdr]
    for grp in groups:
        # the 4-kind header harnesses cost 100-260 s each: thorough tier (quick keeps the type byte of the
        # 36 kinds whose layout harness goes through the Packet writer, and the 4 special kinds)
        tier = "thorough" if (grp[0] in thorough_hdr or len(grp) > 1) else "quick"
        attrs = ""
        if any(h[3] for h in grp):
            attrs += "#[kani::stub(std::hash::RandomState::new, verif_random_state)]\n"
        if any(h[4] for h in grp):
            attrs += "#[kani::unwind(10)]\n"
        names = [h[0] for h in grp]
        hid = "_".join(n.lower() for n in names)
        text.append(f"""
//@ id: header_{hid}
//@ prop: C02
//@ tier: {tier}
//@ functions: insim/src/packet.rs <Packet as BinWrite>::write_options
//@ statement: packet kind(s) {', '.join(f'{n} = {isp[n]}' for n in names)}: the Packet writer emits the specification's type number as the type byte and the request id (ALL 256 values) as the next byte - bytes 1 and 2 of every frame (byte 0 is the size: C03); other fields constant
//@ timeout: 900
#[kani::proof]
#[kani::stub(core::fmt::write, verif_fmt_ok)]
{attrs}fn c02_header_{hid}() {{
{''.join(hdr_block(h[0], h[2]) for h in grp)}}}
""")
    not_hdr = sorted(set(kinds) - {h[0] for h in hdr_kinds})

    # ---------------------------------------------------------- field layout
    scale = spec["scale_ms"]
    unsure = set(spec.get("unsure", []))
    for v, row in sorted(spec["kinds"].items()):
        if v not in kinds:
            raise Undecided(f"spec table: packet kind {v} not found")
        ty, magic = kinds[v]
        g = KindGen(d, count=0, alt=False, len_mode=False)
        try:
            val = g.struct_value(ty)
        except Unsupported as e:
            raise Undecided(f"spec table: cannot build {v}: {e}")
        assumes = []
        it = d[ty]
        for f in g.struct_fields(ty):
            if "strip_reserved_bits" in f.attr_text():
                assumes.append(f"p.{f.name} <= 0x0FFF")
        assumes += repr_assumes(d, ty, "p")
        checks = []
        covered = set()
        report = []
        for path, off in sorted(row["fields"].items(), key=lambda kv: kv[1]):
            w, expr = field_bytes(d, ty, path, scale)
            key = f"{ty}.{path}"
            line = (f'    {{ let e = {expr}; let mut i = 0; while i < {w} {{ assert!(bytes[{off - 1} + i] == e[i], '
                    f'"{v}.{path} at frame offset {off}, {w} byte(s), little endian"); i += 1; }} }}')
            if key in unsure or f"{v}.{path}" in unsure:
                report.append(f"{v}.{path}")
                continue
            checks.append(line)
            covered.update(range(off, off + w))
        for sp in row.get("spare", []):
            checks.append(f'    assert!(bytes[{sp - 1}] == 0, "{v}: spare byte at frame offset {sp} is zero");')
            covered.add(sp)
        for off, ln in row.get("text", []):
            checks.append(f'    {{ let mut i = 0; while i < {ln} {{ assert!(bytes[{off - 1} + i] == 0, '
                          f'"{v}: the {ln}-byte text field at frame offset {off} is all NUL for the empty text"); i += 1; }} }}')
            covered.update(range(off, off + ln))
        size = row["size"]
        hole = sorted(set(range(2, size)) - covered)
        # symbolic time fields are too expensive (K26): the harness keeps the constant the kind
        # generator uses; the resolution is still checked because the constant is 7 units
        text.append(f"""
//@ id: layout_{v.lower()}
//@ prop: C02
//@ tier: {"thorough" if row.get("text") or any(f.ty == "String" for f in it.fields) else "quick"}
//@ functions: {it.file} <{ty} as BinWrite>::write_options; insim/src/packet.rs <Packet as BinWrite>::write_options
//@ statement: {v} (type {row['type']}, {size} bytes{' with empty text' if row.get('text') or any(f.ty == 'String' for f in it.fields) else ''}): for ALL values of the symbolic fields the Packet writer emits type number {isp[v]} and places {', '.join(f'{p}@{o}' for p, o in sorted(row['fields'].items(), key=lambda kv: kv[1]))} at the specification's frame offsets (little endian, times at the specification's resolution), writes 0 into spare byte(s) {row.get('spare', [])} and {size - 2} body bytes in total{'; frame bytes without a table row: ' + str(hole) if hole else ''}{'; reported only (unsure): ' + ', '.join(report) if report else ''}
//@ covers: 1
//@ timeout: 900
#[kani::proof]
#[kani::stub(core::fmt::write, verif_fmt_ok)]
{"#[kani::stub(std::hash::RandomState::new, verif_random_state)]" + chr(10) if g.needs_random_state else ""}fn c02_layout_{v.lower()}() {{
    let p = {val};
{''.join(f'    kani::assume({a});{chr(10)}' for a in assumes)}    let pk = Packet::{v}(p.clone());
    let mut w = Cursor::new(Vec::new());
    let r = pk.write_le(&mut w);
    assert!(r.is_ok(), "a representable packet encodes");
    let bytes = w.into_inner();     // frame without its size byte: bytes[i] is frame byte i + 1
    assert!(bytes[0] == {isp[v]}, "{v}: packet type number {isp[v]}");
    assert!(bytes.len() + 1 == {size}, "{v} is {size} bytes on the wire");
{chr(10).join(checks)}
    core::mem::forget(pk);
    kani::cover!(r.is_ok(), "encoded");
    core::mem::forget(r);
    core::mem::forget(p);
}}
""")
    src = "".join(text)
    hs = [h for h in parse_harnesses("insim", "verif_gen_c02", src) if prop in h.props]
    gen_c02.uncovered = [("C02", v, "no layout row in the specification table (only kinds whose layout the transcriber is certain of are listed)")
                         for v in sorted(set(kinds) - set(spec["kinds"]))] + \
                        [("C02", v, "header bytes: " + HDR_SLOW.get(v, "value cannot be constructed under Kani (float printing / hand-written text)")) for v in not_hdr]
    return "insim", "verif_gen_c02", src, hs
