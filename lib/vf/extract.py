"""Mechanical extraction of real items from the /repo snapshot into a single
Verus file (DESIGN.md section 3.2).

A unit file (/verif/contracts/<unit>.vunit.rs) is ordinary Verus source with
directive blocks:

    //@@ ITEM <id>
    //@@ file: insim/src/net/mode.rs
    //@@ anchor: pub fn encode_length(&self, len: usize) -> io::Result<u8>
    //@@ ret: r                       (name the return value: `-> T` => `-> (r: T)`)
    //@@ rewrite: <regex> => <repl>   (must match at least once, logged)
    //@@ rewrite-any: <regex> => <repl> || <regex> => <repl> ...   (alternatives: at least one must match)
    //@@ refuse: panic!               (macro invocations that become `refuse()`)
    //@@ strip-attrs                  (drop `#[..]` / `///` lines inside the item: enums)
    //@@ as-free-fn: <name>(<params>) -> <ret>   (trait-impl fn extracted as a free fn)
    //@@ contract:
    //@@|     ensures ...
    //@@ loop 1:
    //@@|     invariant ...
    //@@ END

The block is replaced by: <signature text from the repo, rewritten> <contract>
<body from the repo, rewritten>.  Bodies are copied verbatim from the anchor to
the matching closing brace; the only edits are the rewrites named in the block
plus the global ones below, and every one is logged.
"""
from __future__ import annotations

import re
from pathlib import Path

from .common import Undecided

GLOBAL_LINE_DELETES = [
    (re.compile(r"^\s*#\[tracing::instrument[^\n]*\]\s*$", re.M), "tracing attribute"),
]


def _skip_string(src: str, i: int) -> int:
    """src[i] == '"' ; return index after closing quote."""
    i += 1
    n = len(src)
    while i < n:
        c = src[i]
        if c == "\\":
            i += 2
            continue
        if c == '"':
            return i + 1
        i += 1
    raise Undecided("unterminated string literal during extraction")


def _skip_raw_string(src: str, i: int) -> int | None:
    m = re.match(r'b?r(#*)"', src[i:])
    if not m:
        return None
    hashes = m.group(1)
    end = src.find('"' + hashes, i + m.end())
    if end < 0:
        raise Undecided("unterminated raw string")
    return end + 1 + len(hashes)


def _skip_char_or_lifetime(src: str, i: int) -> int:
    """src[i] == "'" : either a char literal or a lifetime."""
    m = re.match(r"'(\\.[^']*|[^'\\])'", src[i:])
    if m:
        return i + m.end()
    return i + 1  # lifetime tick


def scan_balanced(src: str, start: int, open_ch: str, close_ch: str) -> int:
    """src[start] == open_ch; return index just after the matching close_ch,
    skipping strings, chars and comments."""
    assert src[start] == open_ch, (src[start:start + 20], open_ch)
    depth = 0
    i = start
    n = len(src)
    while i < n:
        c = src[i]
        if src.startswith("//", i):
            j = src.find("\n", i)
            i = n if j < 0 else j
            continue
        if src.startswith("/*", i):
            j = src.find("*/", i)
            if j < 0:
                raise Undecided("unterminated block comment")
            i = j + 2
            continue
        if c == '"':
            i = _skip_string(src, i)
            continue
        if c in "rb":
            j = _skip_raw_string(src, i) if re.match(r'b?r#*"', src[i:i + 6]) and (i == 0 or not (src[i - 1].isalnum() or src[i - 1] == "_")) else None
            if j:
                i = j
                continue
        if c == "'":
            i = _skip_char_or_lifetime(src, i)
            continue
        if c == open_ch:
            depth += 1
        elif c == close_ch:
            depth -= 1
            if depth == 0:
                return i + 1
        i += 1
    raise Undecided(f"unbalanced {open_ch}{close_ch} during extraction")


def find_body_open(src: str, start: int) -> int:
    """Index of the '{' that opens the item body after the signature starting
    at `start` (skips generics / parens / where clauses)."""
    i = start
    n = len(src)
    while i < n:
        c = src[i]
        if c == "(":
            i = scan_balanced(src, i, "(", ")")
            continue
        if c == "[":
            i = scan_balanced(src, i, "[", "]")
            continue
        if c == "'":
            i = _skip_char_or_lifetime(src, i)
            continue
        if c == "{":
            return i
        if c == ";":
            raise Undecided("item has no body")
        i += 1
    raise Undecided("no body found after anchor")


def _ws_regex(anchor: str) -> re.Pattern:
    parts = [re.escape(p) for p in anchor.split()]
    return re.compile(r"\s+".join(parts))


def rewrite_macro_calls(text: str, macro: str, replacement: str, log: list, what: str) -> str:
    """Replace every `macro!( ... )` (balanced) by `replacement`."""
    out = []
    i = 0
    count = 0
    pat = re.compile(r"(?<![A-Za-z0-9_:])" + re.escape(macro) + r"\s*\(")
    while True:
        m = pat.search(text, i)
        if not m:
            out.append(text[i:])
            break
        out.append(text[i:m.start()])
        end = scan_balanced(text, m.end() - 1, "(", ")")
        out.append(replacement)
        count += 1
        i = end
    if count:
        log.append(f"{what}: {count} occurrence(s) of `{macro}(..)` -> `{replacement}`")
    return "".join(out), count


def delete_tracing_statements(text: str, log: list) -> str:
    pat = re.compile(r"[ \t]*tracing::(trace|debug|info|warn|error)!\s*\(")
    out = []
    i = 0
    count = 0
    while True:
        m = pat.search(text, i)
        if not m:
            out.append(text[i:])
            break
        out.append(text[i:m.start()])
        end = scan_balanced(text, m.end() - 1, "(", ")")
        # swallow trailing `;` and the newline
        m2 = re.match(r"\s*;[ \t]*\n?", text[end:])
        if m2:
            end += m2.end()
        count += 1
        i = end
    if count:
        log.append(f"deleted {count} tracing event statement(s)")
    return "".join(out)


LOOP_HEAD = re.compile(r"(?<![A-Za-z0-9_])(while|loop|for)(?![A-Za-z0-9_])")


def insert_loop_clauses(body: str, loops: dict, log: list) -> str:
    """Insert invariant/decreases text before the `{` of the N-th loop (1-based,
    in source order)."""
    if not loops:
        return body
    positions = []
    i = 0
    n = len(body)
    while i < n:
        c = body[i]
        if body.startswith("//", i):
            j = body.find("\n", i)
            i = n if j < 0 else j
            continue
        if c == '"':
            i = _skip_string(body, i)
            continue
        if c == "'":
            i = _skip_char_or_lifetime(body, i)
            continue
        m = LOOP_HEAD.match(body, i)
        if m:
            brace = find_body_open(body, m.end())
            positions.append(brace)
            i = m.end()
            continue
        i += 1
    for k in loops:
        if k < 1 or k > len(positions):
            raise Undecided(f"loop ordinal {k} not found (function has {len(positions)} loops)")
    out = body
    for k in sorted(loops, reverse=True):
        p = positions[k - 1]
        out = out[:p] + "\n" + loops[k].rstrip() + "\n" + out[p:]
        log.append(f"inserted loop contract before loop #{k}")
    return out


class Item:
    def __init__(self, ident):
        self.id = ident
        self.file = None
        self.anchor = None
        self.ret = None
        self.rewrites = []
        self.rewrite_any = []   # groups of alternatives: at least one of a group must match
        self.refuse = []
        self.strip_attrs = False
        self.as_free_fn = None
        self.contract = ""
        self.loops = {}
        self.body_only = False
        self.proofs = []   # [anchor_text, ghost_text]
        self.is_const = False


def parse_unit(text: str):
    """Split a unit file into literal chunks and Item directives."""
    chunks = []
    cur = None
    mode = None  # None | 'contract' | ('loop', n)
    lit = []
    for line in text.splitlines(keepends=True):
        s = line.strip()
        if s.startswith("//@@|"):
            if cur is None:
                raise Undecided("//@@| outside ITEM")
            payload = line.split("//@@|", 1)[1]
            if mode == "contract":
                cur.contract += payload
            elif isinstance(mode, tuple) and mode[0] == "proof":
                cur.proofs[mode[1]][1] += payload
            elif isinstance(mode, tuple):
                cur.loops[mode[1]] = cur.loops.get(mode[1], "") + payload
            continue
        if s.startswith("//@@"):
            d = s[4:].strip()
            if d.startswith("ITEM "):
                if cur is not None:
                    raise Undecided("nested ITEM")
                chunks.append(("lit", "".join(lit)))
                lit = []
                cur = Item(d[5:].strip())
                mode = None
            elif d == "END":
                chunks.append(("item", cur))
                cur = None
                mode = None
            elif cur is None and d.startswith("GEN "):
                chunks.append(("lit", "".join(lit)))
                lit = []
                chunks.append(("gen", d[4:].strip()))
            elif cur is None:
                if re.match(r"(PROP|REAL|STATEMENT|TWIN|CANARY|ASSUME)\b", d):
                    continue  # unit-level metadata (lib/vf/verus.py)
                raise Undecided(f"directive outside ITEM: {d}")
            elif d.startswith("file:"):
                cur.file = d[5:].strip()
            elif d.startswith("anchor:"):
                cur.anchor = d[7:].strip()
            elif d.startswith("ret:"):
                cur.ret = d[4:].strip()
            elif d.startswith("rewrite-any:"):
                alts = []
                for alt in d[len("rewrite-any:"):].split(" || "):
                    a, b = alt.split("=>", 1)
                    alts.append((a.strip(), b.strip()))
                cur.rewrite_any.append(alts)
            elif d.startswith("rewrite:"):
                a, b = d[8:].split("=>", 1)
                cur.rewrites.append((a.strip(), b.strip()))
            elif d.startswith("refuse:"):
                cur.refuse.append(d[7:].strip().rstrip("!") + "!")
            elif d == "strip-attrs":
                cur.strip_attrs = True
            elif d == "const":
                cur.is_const = True
            elif d.startswith("as-free-fn:"):
                cur.as_free_fn = d[len("as-free-fn:"):].strip()
            elif d == "contract:":
                mode = "contract"
            elif d.startswith("proof-after:"):
                cur.proofs.append([d[len("proof-after:"):].strip(), ""])
                mode = ("proof", len(cur.proofs) - 1)
            elif re.match(r"loop (\d+):", d):
                mode = ("loop", int(re.match(r"loop (\d+):", d).group(1)))
            else:
                raise Undecided(f"unknown directive: {d}")
            continue
        if cur is None:
            lit.append(line)
        # plain lines inside an ITEM block are ignored (comments for the reader)
    if cur is not None:
        raise Undecided("ITEM without END")
    chunks.append(("lit", "".join(lit)))
    return chunks


def extract_item(repo: Path, item: Item, log: list, linemap: list, out_line: int):
    """Returns the text that replaces the ITEM block."""
    path = repo / item.file
    if not path.exists():
        raise Undecided(f"lost anchor: file {item.file} not found")
    src = path.read_text()
    ms = list(_ws_regex(item.anchor).finditer(src))
    if len(ms) != 1:
        raise Undecided(f"lost anchor: `{item.anchor}` found {len(ms)} times in {item.file}")
    start = ms[0].start()
    if item.is_const:
        semi = ms[0].end() - 1 if item.anchor.rstrip().endswith(";") else src.find(";", ms[0].end())
        if semi < 0:
            raise Undecided(f"lost anchor: const {item.id} has no terminator")
        brace = ms[0].end()
        end = semi + 1
    else:
        # the anchor may extend into the body (to tell two impls of the same trait method apart)
        brace = find_body_open(src, start)
        end = scan_balanced(src, brace, "{", "}")
    sig = src[start:brace]
    body = src[brace:end]
    first_line = src.count("\n", 0, start) + 1
    ilog = []

    # global rewrites
    for pat, what in GLOBAL_LINE_DELETES:
        body, k = pat.subn("", body)
        if k:
            ilog.append(f"deleted {k} {what} line(s)")
    body = delete_tracing_statements(body, ilog)

    if item.strip_attrs:
        kept = []
        dropped = 0
        for ln in body.splitlines(keepends=True):
            t = ln.strip()
            if t.startswith("#[") or t.startswith("///") or t.startswith("//!"):
                dropped += 1
                continue
            kept.append(ln)
        body = "".join(kept)
        if dropped:
            ilog.append(f"dropped {dropped} attribute/doc line(s) inside the item")

    for macro in item.refuse:
        body, k = rewrite_macro_calls(body, macro, "refuse()", ilog, "refusal position")
        if k == 0:
            raise Undecided(f"lost anchor: no `{macro}(..)` in {item.id}")

    for pat, repl in item.rewrites:
        rx = re.compile(pat)
        sig2, k1 = rx.subn(repl, sig)
        body2, k2 = rx.subn(repl, body)
        if k1 + k2 == 0:
            raise Undecided(f"lost anchor: rewrite `{pat}` matched nothing in {item.id}")
        sig, body = sig2, body2
        ilog.append(f"rewrite /{pat}/ -> `{repl}`: {k1 + k2} occurrence(s)")

    for alts in item.rewrite_any:
        hit = 0
        for pat, repl in alts:
            rx = re.compile(pat)
            body2, k2 = rx.subn(repl, body)
            if k2:
                body = body2
                hit += k2
                ilog.append(f"rewrite (one of {len(alts)} alternatives) /{pat}/ -> `{repl}`: {k2} occurrence(s)")
        if hit == 0:
            raise Undecided(f"lost anchor: none of the alternative rewrites {[a for a, _ in alts]} matched in {item.id}")

    if item.as_free_fn:
        ilog.append(f"signature replaced: trait-impl fn extracted as free fn `{item.as_free_fn}` (Self -> concrete type by rewrite)")
        sig = "fn " + item.as_free_fn + " "
    if item.ret:
        # name the return value
        m = re.search(r"->\s*(.+?)\s*$", sig.strip(), re.S)
        if not m:
            raise Undecided(f"no return type to name in {item.id}")
        ty = m.group(1).strip()
        if not ty.startswith("("+item.ret+":"):
            sig = sig.strip()[: m.start()] + f"-> ({item.ret}: {ty})"
            ilog.append(f"named return value `{item.ret}`")
    body = insert_loop_clauses(body, item.loops, ilog)
    for anchor_text, ghost in item.proofs:
        hits = [m.start() for m in re.finditer(re.escape(anchor_text), body)]
        if len(hits) != 1:
            raise Undecided(f"lost anchor: proof-after `{anchor_text}` found {len(hits)} times in {item.id}")
        eol = body.find("\n", hits[0])
        body = body[:eol + 1] + ghost.rstrip() + "\n" + body[eol + 1:]
        ilog.append(f"inserted ghost proof block after `{anchor_text}`")

    text = sig.rstrip() + "\n" + item.contract.rstrip() + ("\n" if item.contract.strip() else "") + body + "\n"
    # line map (approximate: body lines map 1:1 before loop-clause insertion)
    sig_lines = sig.rstrip().count("\n") + 1
    contract_lines = item.contract.rstrip().count("\n") + 1 if item.contract.strip() else 0
    body_first_out = out_line + sig_lines + contract_lines
    body_first_src = src.count("\n", 0, brace) + 1
    linemap.append({"item": item.id, "file": item.file, "src_first_line": first_line,
                    "src_body_first_line": body_first_src,
                    "out_first_line": out_line, "out_body_first_line": body_first_out,
                    "out_last_line": out_line + text.count("\n") - 1})
    log.append({"item": item.id, "file": f"{item.file}:{first_line}", "edits": ilog})
    return text


def run_generator(repo: Path, spec: str, log: list) -> str:
    """//@@ GEN opaque-payloads enum=Packet except=Tiny,Ver
    One opaque stand-in struct per payload type of the enum's tuple variants
    (generated from the snapshot's declaration)."""
    from . import decl
    parts = spec.split()
    name = parts[0]
    kv = dict(p.split("=", 1) for p in parts[1:])
    if name == "opaque-payloads":
        d = decl.load(repo)
        it = d.get(kv["enum"])
        if it is None or it.kind != "enum":
            raise Undecided(f"lost anchor: enum {kv['enum']} not found for GEN")
        skip = set(kv.get("except", "").split(","))
        tys = []
        for v in it.variants:
            for t in v.payload:
                if t not in skip and t not in tys:
                    tys.append(t)
        log.append({"item": f"GEN {spec}", "file": it.file, "edits": [f"generated {len(tys)} opaque stand-in payload structs"]})
        return "".join(f"#[verifier::external_body]\npub struct {t} {{ _p: u8 }}\n" for t in tys)
    raise Undecided(f"unknown GEN {name}")


def assemble(repo: Path, unit_path: Path):
    chunks = parse_unit(unit_path.read_text())
    out = []
    log = []
    linemap = []
    line = 1
    for kind, val in chunks:
        if kind == "lit":
            out.append(val)
            line += val.count("\n")
        elif kind == "gen":
            t = run_generator(repo, val, log)
            out.append(t)
            line += t.count("\n")
        else:
            t = extract_item(repo, val, log, linemap, line)
            out.append(t)
            line += t.count("\n")
    return "".join(out), log, linemap


def map_line(linemap, out_line: int):
    for m in linemap:
        if m["out_first_line"] <= out_line <= m["out_last_line"]:
            if out_line >= m["out_body_first_line"]:
                return m["item"], m["file"], m["src_body_first_line"] + (out_line - m["out_body_first_line"])
            return m["item"], m["file"], m["src_first_line"]
    return None, None, None
