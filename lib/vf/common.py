"""Shared plumbing for the /verif checks: scratch snapshot of /repo, process
running, obligation records, known findings, evidence files.

Exit-code convention (DESIGN.md section 3.1.6):
  0  every obligation discharged (known findings are printed, not alarmed)
  1  an indexed obligation was refuted by a verifier  -> VIOLATION line
  2  undecided: lost anchor, build error, unsupported construct, timeout, OOM
"""
from __future__ import annotations

import atexit
import dataclasses
import hashlib
import json
import os
import re
import shutil
import signal
import subprocess
import sys
import tempfile
import time
from pathlib import Path

ROOT = Path(__file__).resolve().parents[2]          # /verif
REPO = Path(os.environ.get("VERIF_REPO", "/repo"))
EVIDENCE_DIR = Path(os.environ.get("VERIF_EVIDENCE_DIR", ROOT / "evidence"))
REPLAY_DIR = Path(os.environ.get("VERIF_REPLAY_DIR", ROOT / "replays"))
KNOWN_FINDINGS = ROOT / "known_findings.json"
CACHE_DIR = ROOT / ".cache"
NCPU = os.cpu_count() or 4


class Undecided(Exception):
    """The machinery could not decide (never reported as a violation)."""


# --------------------------------------------------------------------------
# scratch snapshot of the working tree


class Scratch:
    """A private copy of /repo's *working tree* under $TMPDIR, removed on exit."""

    def __init__(self, tag: str):
        base = os.environ.get("TMPDIR", "/tmp")
        self.dir = Path(tempfile.mkdtemp(prefix=f"insim-verif.{tag}.", dir=base))
        self.repo = self.dir / "repo"
        atexit.register(self.cleanup)
        for sig in (signal.SIGTERM, signal.SIGINT, signal.SIGHUP):
            try:
                signal.signal(sig, self._on_signal)
            except Exception:
                pass
        self._snapshot()

    def _on_signal(self, signum, frame):
        self.cleanup()
        sys.exit(2)

    def _snapshot(self):
        cmd = ["rsync", "-a", "--delete", "--exclude", "/target", "--exclude", "/.git",
               "--exclude", "/.cargo", f"{REPO}/", f"{self.repo}/"]
        subprocess.run(cmd, check=True)

    def cleanup(self):
        if os.environ.get("VERIF_KEEP"):
            return
        shutil.rmtree(self.dir, ignore_errors=True)


def repo_fingerprint() -> str:
    """HEAD + dirty marker of /repo, for evidence."""
    try:
        head = subprocess.run(["git", "-C", str(REPO), "rev-parse", "--short", "HEAD"],
                              capture_output=True, text=True).stdout.strip()
        dirty = subprocess.run(["git", "-C", str(REPO), "status", "--porcelain", "--untracked-files=no"],
                               capture_output=True, text=True).stdout.strip()
        return head + ("+dirty" if dirty else "")
    except Exception:
        return "unknown"


def run(cmd, cwd=None, env=None, timeout=None, stdin=None):
    """Run, capture stdout/stderr as text, never raise on non-zero."""
    e = dict(os.environ)
    e.update({"CARGO_NET_OFFLINE": "true", "CARGO_TERM_COLOR": "never"})
    if env:
        e.update(env)
    t0 = time.time()
    try:
        p = subprocess.run(cmd, cwd=cwd, env=e, capture_output=True, text=True,
                           timeout=timeout, input=stdin, errors="replace")
        return p.returncode, p.stdout, p.stderr, time.time() - t0
    except subprocess.TimeoutExpired as ex:
        out = ex.stdout.decode(errors="replace") if isinstance(ex.stdout, bytes) else (ex.stdout or "")
        err = ex.stderr.decode(errors="replace") if isinstance(ex.stderr, bytes) else (ex.stderr or "")
        return -9, out, err + "\n[verif] TIMEOUT", time.time() - t0


# --------------------------------------------------------------------------
# obligations


@dataclasses.dataclass
class Obligation:
    id: str                      # <property>/<engine>/<function-or-harness>
    engine: str                  # verus | kani
    backend: str                 # "z3 via Verus" | "cadical via CBMC" ...
    functions: list              # real functions of /repo under this contract
    status: str = "undecided"    # discharged | failed | undecided | report-only
    statement: str = ""          # the contract in words / clause text
    bounded: str | None = None   # None = unbounded/full-domain; else the bound
    solver_s: float = 0.0
    checks: int = 0              # CBMC checks / Verus rlimit
    covers: str = ""
    detail: str = ""             # verifier output excerpt (failures)
    failed_clauses: list = dataclasses.field(default_factory=list)
    source: str = ""             # /repo file:line the obligation is anchored at
    report_only: bool = False    # cannot raise a violation (e.g. 'unsure' spec rows)

    def to_json(self):
        d = dataclasses.asdict(self)
        d["detail"] = d["detail"][-4000:]
        return d


def fingerprint(text: str) -> str:
    return hashlib.sha256(text.encode()).hexdigest()[:12]


def norm_clause(s: str) -> str:
    return re.sub(r"\s+", " ", s).strip()


# --------------------------------------------------------------------------
# known findings


def load_known():
    if not KNOWN_FINDINGS.exists():
        return {"findings": [], "fixed": []}
    return json.loads(KNOWN_FINDINGS.read_text())


def match_known(known, prop: str, obligation: str, clause: str):
    """A finding suppresses a failure only if property, obligation id and the
    failing clause / input class all match."""
    for f in known.get("findings", []):
        if f.get("property") != prop:
            continue
        if f.get("obligation") != obligation:
            continue
        fp = f.get("clause")
        if fp is None or norm_clause(fp) == norm_clause(clause):
            return f
    return None


# --------------------------------------------------------------------------
# evidence


def write_evidence(prop: str, tier: str, level: str, obligations: list, *, wall_s: float,
                   checker_cmd: str, trusted_base: list, assumptions: list, violations: int,
                   extra: dict | None = None):
    EVIDENCE_DIR.mkdir(exist_ok=True, parents=True)
    counted = [o for o in obligations if not o.report_only]
    unb = [o for o in counted if o.bounded is None]            # unbounded / full-domain: the proof claim
    bounded = [o for o in counted if o.bounded is not None]   # bounded stand-ins: never counted as proved
    discharged = [o for o in unb if o.status == "discharged"]
    proved = discharged
    b_discharged = [o for o in bounded if o.status == "discharged"]
    samples = []
    for o in obligations[:6]:
        samples.append({"obligation": o.id, "engine": o.engine, "functions": o.functions,
                        "statement": o.statement[:600], "status": o.status,
                        "bounded": o.bounded, "solver_s": round(o.solver_s, 3)})
    cov = {
        "obligations": len(unb),
        "discharged": len(discharged),
        "known_findings": [o.id for o in counted if o.status == "known-finding"],
        "bounded_total": len(bounded),
        "bounded_discharged": len(b_discharged),
        "bounded_obligations": [{"id": o.id, "bound": o.bounded, "status": o.status} for o in bounded],
        "checker_cmd": checker_cmd,
        "trusted_base": trusted_base,
        # generic keys (measured): every obligation is one evaluation; the
        # non-trivial ones are those the verifier actually had to solve
        # (solver time or check count > 0) and that were discharged.
        "evaluations": len(obligations),
        "distinct_nontrivial": len({o.id for o in (discharged + b_discharged) if (o.checks > 0 or o.solver_s > 0)}),
        "rule": "one evaluation per proof obligation (a function or lemma under contract for Verus, "
                "a proof harness for Kani); non-trivial = discharged with a non-zero number of "
                "solver checks / resource units",
        "samples": samples,
        "functions_under_contract": sorted({f for o in obligations for f in o.functions}),
        "solver_s_total": round(sum(o.solver_s for o in obligations), 3),
        "per_obligation": [o.to_json() for o in obligations],
        "repo": repo_fingerprint(),
        "exhaustive": False,
    }
    if extra:
        cov.update(extra)
    ev = {
        "property_id": prop,
        "tier": tier,
        "seed": int(os.environ.get("VERIF_SEED", "0") or 0),
        "level": level,
        "coverage": cov,
        "assumptions": assumptions,
        "wall_s": round(wall_s, 2),
        "violations": violations,
    }
    path = EVIDENCE_DIR / f"{prop}.json"
    tmp = path.with_suffix(".json.tmp")
    tmp.write_text(json.dumps(ev, indent=1))
    tmp.replace(path)
    return path


def write_replay(prop: str, ob: Obligation, payload: dict) -> Path:
    REPLAY_DIR.mkdir(exist_ok=True, parents=True)
    name = re.sub(r"[^A-Za-z0-9_.-]", "_", ob.id)
    body = {"property": prop, "obligation": ob.id, "engine": ob.engine,
            "functions": ob.functions, "source": ob.source,
            "failed_clauses": ob.failed_clauses,
            "verifier_output": ob.detail[-6000:], **payload}
    h = fingerprint(json.dumps(body, sort_keys=True))
    path = REPLAY_DIR / f"{name}-{h}.json"
    path.write_text(json.dumps(body, indent=1))
    return path
