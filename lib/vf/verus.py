"""Run one Verus unit assembled from the /repo snapshot and turn the result
into obligations."""
from __future__ import annotations

import json
import re
from pathlib import Path

from . import extract
from .common import ROOT, Obligation, Undecided, run

CONTRACTS = ROOT / "contracts"

ASSUMPTION_WORDS = re.compile(r"\b(assume|admit|external_body|assume_specification|external_fn_specification|external_type_specification|external)\b")


def unit_meta(unit_text: str):
    """//@@ PROP C03: fn_a, fn_b     functions/lemmas that are obligations of a property
       //@@ REAL fn_a: insim/src/net/mode.rs Mode::encode_length   real function behind an obligation
       //@@ STATEMENT fn_a: text
       //@@ TWIN fn_a: <crate> <kani harness>   full-domain Kani harness for counterexamples
       //@@ CANARY name                         proof fn that must FAIL
       //@@ ASSUME text                         assumption listed in evidence
    """
    props, real, stmts, twins, canaries, assumes, bounded = {}, {}, {}, {}, [], [], {}
    for line in unit_text.splitlines():
        s = line.strip()
        if not s.startswith("//@@ "):
            continue
        d = s[5:]
        if d.startswith("PROP "):
            p, fns = d[5:].split(":", 1)
            props.setdefault(p.strip(), []).extend(f.strip() for f in fns.split(",") if f.strip())
        elif d.startswith("REAL "):
            f, r = split_key(d[5:])
            real.setdefault(f.strip(), []).append(r.strip())
        elif d.startswith("STATEMENT "):
            f, r = split_key(d[10:])
            stmts[f.strip()] = r.strip()
        elif d.startswith("TWIN "):
            f, r = split_key(d[5:])
            twins[f.strip()] = r.strip().split()
        elif d.startswith("CANARY "):
            canaries.append(d[7:].strip())
        elif d.startswith("ASSUME "):
            assumes.append(d[7:].strip())
    return props, real, stmts, twins, canaries, assumes


def split_key(s: str):
    """`Mode::encode_length: text` -> (`Mode::encode_length`, `text`)"""
    m = re.match(r"\s*(\S+?):\s+(.*)$", s)
    if not m:
        raise Undecided(f"bad unit metadata line: {s}")
    return m.group(1), m.group(2)


def short_fn(name: str) -> str:
    """`unit::Mode::encode_length` -> `Mode::encode_length` (drop the crate = file stem)."""
    parts = name.split("::")
    return "::".join(parts[1:]) if len(parts) > 1 else name


def enclosing_fn(text: str, byte_pos: int) -> str | None:
    best = None
    for m in re.finditer(r"\bfn\s+([A-Za-z_][A-Za-z0-9_]*)", text):
        if m.start() <= byte_pos:
            best = m.group(1)
        else:
            break
    return best


def run_unit(scratch, unit: str, prop: str | None):
    """Returns (obligations for `prop`, info dict)."""
    unit_path = CONTRACTS / f"{unit}.vunit.rs"
    unit_text = unit_path.read_text()
    props, real, stmts, twins, canaries, assumes = unit_meta(unit_text)
    assembled, log, linemap = extract.assemble(scratch.repo, unit_path)
    out_path = scratch.dir / f"{unit}.rs"
    out_path.write_text(assembled)
    cmd = ["verus", str(out_path), "--output-json", "--time", "--multiple-errors", "50",
           "--error-format=json"]
    rc, out, err, wall = run(cmd, cwd=scratch.dir, timeout=900)
    info = {"unit": unit, "cmd": "verus <assembled>/%s.rs --output-json --time --multiple-errors 50" % unit,
            "wall_s": round(wall, 2), "extraction_log": log, "assembled_lines": assembled.count("\n"),
            "assembled_sha": __import__("hashlib").sha256(assembled.encode()).hexdigest()[:16]}
    try:
        js = json.loads(out[out.index("{"):])
    except Exception:
        raise Undecided(f"verus produced no JSON for unit {unit} (rc={rc}):\n{err[-3000:]}")
    diags = []
    for line in err.splitlines():
        line = line.strip()
        if line.startswith("{"):
            try:
                diags.append(json.loads(line))
            except Exception:
                pass
    # compile-level failure => undecided
    vr = js.get("verification-results", {})
    if vr.get("encountered-vir-error") or ("verification-results" not in js):
        msgs = "\n".join(d.get("rendered", "") for d in diags if d.get("level") == "error")
        raise Undecided(f"verus rejected unit {unit} (unsupported construct or extraction problem):\n{msgs[-4000:]}")
    hard = [d for d in diags if d.get("level") == "error" and not d.get("spans")]
    if vr.get("encountered-error") and not vr.get("verified") and not vr.get("errors"):
        msgs = "\n".join(d.get("rendered", "") for d in diags if d.get("level") == "error")
        raise Undecided(f"verus rejected unit {unit}:\n{msgs[-4000:]}")
    breakdown = []
    try:
        for m in js["times-ms"]["smt"]["smt-run-module-times"]:
            breakdown.extend(m.get("function-breakdown", []))
    except KeyError:
        raise Undecided(f"verus JSON has no function breakdown for unit {unit}")
    by_fn = {}
    for b in breakdown:
        by_fn[short_fn(b["function"])] = b
    # attribute errors to functions
    errs_by_fn = {}
    for d in diags:
        if d.get("level") != "error" or not d.get("spans"):
            continue
        prim = [s for s in d["spans"] if s.get("is_primary")] or d["spans"]
        sp = prim[0]
        # function = enclosing fn of the *body* span if present, else of primary
        others = [s for s in d["spans"] if not s.get("is_primary")]
        pos = (others[0] if others else sp)["byte_start"]
        fn = enclosing_fn(assembled, pos) or enclosing_fn(assembled, sp["byte_start"])
        clause = assembled.encode()[sp["byte_start"]:sp["byte_end"]].decode(errors="replace")
        item, sfile, sline = extract.map_line(linemap, (others[0] if others else sp)["line_start"])
        errs_by_fn.setdefault(fn, []).append({
            "message": d.get("message"), "clause": re.sub(r"\s+", " ", clause).strip(),
            "at": f"{sfile}:{sline}" if sfile else None,
            "rendered": d.get("rendered", "")})
    info["total_smt_ms"] = js["times-ms"]["smt"].get("smt-run")
    info["verus_version"] = js.get("verus", {}).get("version")

    # canaries must fail
    for c in canaries:
        hit = [k for k in by_fn if k.split("::")[-1] == c]
        if not hit:
            raise Undecided(f"canary {c} missing from verus output (unit {unit})")
        if by_fn[hit[0]].get("success", True):
            raise Undecided(f"canary {c} VERIFIED: the unit's assumptions are contradictory (unit {unit})")
    info["canaries_failed_as_required"] = canaries

    # assumption scan
    scan = []
    for i, line in enumerate(assembled.splitlines(), 1):
        code = line.split("//")[0]
        m = ASSUMPTION_WORDS.search(code)
        if m:
            scan.append(f"{unit}.rs:{i}: {line.strip()[:160]}")
    info["assumption_scan"] = scan
    info["declared_assumptions"] = assumes

    obligations = []
    wanted = props.get(prop, []) if prop else sorted(set(sum(props.values(), [])))
    for fn in wanted:
        hit = [k for k in by_fn if k == fn or k.endswith("::" + fn) or k.split("::")[-1] == fn]
        if len(hit) != 1:
            raise Undecided(f"obligation {fn} matched {len(hit)} verus functions in unit {unit}: {sorted(by_fn)[:40]}")
        b = by_fn[hit[0]]
        last = fn.split("::")[-1]
        ob = Obligation(id=f"{prop}/verus/{unit}::{fn}", engine="verus", backend="z3 via Verus",
                        functions=real.get(fn, []), statement=stmts.get(fn, ""),
                        solver_s=b.get("time-micros", 0) / 1e6, checks=b.get("rlimit", 0))
        es = errs_by_fn.get(last, [])
        if b.get("success"):
            ob.status = "discharged"
        else:
            # rlimit / timeout without a refutation message => undecided
            msgs = " ".join((e["message"] or "") for e in es)
            if not es or "rlimit" in msgs or "resource limit" in msgs or "timed out" in msgs:
                ob.status = "undecided"
            else:
                ob.status = "failed"
            ob.failed_clauses = [{"message": e["message"], "clause": e["clause"], "at": e["at"]} for e in es]
            ob.detail = "\n".join(e["rendered"] for e in es)
            ob.source = next((e["at"] for e in es if e["at"]), "")
        ob.twin = twins.get(fn)
        obligations.append(ob)
    return obligations, info


def extraction_selftest(scratch, unit: str):
    """Thorough tier: the assembled unit must follow the real source. Change one numeric
    literal inside each extracted body of a throw-away copy and check that the assembled
    text changes (and only inside that item)."""
    import shutil
    unit_path = CONTRACTS / f"{unit}.vunit.rs"
    base, _log, linemap = extract.assemble(scratch.repo, unit_path)
    report = []
    files = sorted({m["file"] for m in linemap})
    for rel in files:
        src_path = scratch.repo / rel
        orig = src_path.read_text()
        items = [m for m in linemap if m["file"] == rel]
        for m in items:
            lines = orig.splitlines(keepends=True)
            lo = m["src_body_first_line"] - 1
            hi = lo + (m["out_last_line"] - m["out_body_first_line"]) + 1
            changed = False
            for i in range(lo, min(hi, len(lines))):
                if lines[i].lstrip().startswith(("#[", "//")):
                    continue   # attributes / comments are dropped by extraction by design
                mm = re.search(r"(?<![A-Za-z_0-9.])(\d+)(?![A-Za-z_0-9.])", lines[i].split("//")[0])
                if mm:
                    n = int(mm.group(1))
                    lines[i] = lines[i][:mm.start(1)] + str(n + 1) + lines[i][mm.end(1):]
                    changed = True
                    break
            if not changed:
                report.append({"item": m["item"], "result": "no numeric literal to perturb"})
                continue
            src_path.write_text("".join(lines))
            try:
                mutated, _l, _m = extract.assemble(scratch.repo, unit_path)
                ok = mutated != base
            except Undecided as e:
                ok = True   # the change was noticed (anchor lost)
            finally:
                src_path.write_text(orig)
            report.append({"item": m["item"], "result": "assembled unit changed" if ok else "NOT REFLECTED"})
    bad = [r for r in report if r["result"] == "NOT REFLECTED"]
    return {"unit": unit, "items": report, "ok": not bad}
