"""Inject harness modules into the /repo snapshot and run Kani on the real
compiled crates."""
from __future__ import annotations

import os
import re
import shutil
import subprocess
from pathlib import Path

from .common import CACHE_DIR, NCPU, ROOT, Obligation, Undecided, run

KANI_SRC = ROOT / "kani"
SHIM = ROOT / "shim"
KANI_FLAGS = ["-Z", "function-contracts", "-Z", "stubbing", "-Z", "unstable-options"]

CRATE_FEATURES = {
    "insim": ["--no-default-features", "--features", "blocking"],
}


class Harness:
    def __init__(self, crate, module, name):
        self.crate = crate
        self.module = module
        self.name = name
        self.id = name
        self.props = []
        self.tier = "quick"
        self.functions = []
        self.statement = ""
        self.bounded = None
        self.timeout = 600
        self.covers = None
        self.report_only = False
        self.finding_class = None
        self.allow_panic_in = []


def parse_harnesses(crate: str, module: str, text: str):
    """Harness metadata lives in `//@ key: value` lines directly above
    `#[kani::proof]`."""
    hs = []
    meta = {}
    lines = text.splitlines()
    i = 0
    pending_proof = False
    while i < len(lines):
        s = lines[i].strip()
        if s.startswith("//@ "):
            k, _, v = s[4:].partition(":")
            k = k.strip()
            v = v.strip()
            if k in ("functions",):
                meta.setdefault(k, [])
                meta[k].extend(x.strip() for x in v.split(";") if x.strip())
            elif k == "statement" and "statement" in meta:
                meta["statement"] += " " + v
            else:
                meta[k] = v
        elif s.startswith("#[kani::proof"):
            pending_proof = True
        elif pending_proof and re.match(r"(pub(\([a-z]+\))?\s+)?fn\s+([A-Za-z0-9_]+)", s):
            name = re.match(r"(pub(\([a-z]+\))?\s+)?fn\s+([A-Za-z0-9_]+)", s).group(3)
            h = Harness(crate, module, name)
            h.id = meta.get("id", name)
            h.props = [p.strip() for p in meta.get("prop", "").split(",") if p.strip()]
            h.tier = meta.get("tier", "quick")
            h.functions = meta.get("functions", [])
            h.statement = meta.get("statement", "")
            h.bounded = meta.get("bounded")
            h.timeout = int(meta.get("timeout", "600"))
            h.covers = int(meta["covers"]) if "covers" in meta else None
            h.report_only = meta.get("report-only", "") == "yes"
            h.allow_panic_in = [x.strip() for x in meta.get("allow-panic-in", "").split(";") if x.strip()]
            hs.append(h)
            meta = {}
            pending_proof = False
        elif s and not s.startswith("#[") and not s.startswith("//"):
            if not pending_proof:
                pass
        i += 1
    return hs


def all_harnesses():
    hs = []
    for crate_dir in sorted(KANI_SRC.iterdir()):
        if not crate_dir.is_dir():
            continue
        for f in sorted(crate_dir.glob("verif_*.rs")):
            hs.extend(parse_harnesses(crate_dir.name, f.stem, f.read_text()))
    return hs


INJECT_RE = re.compile(r"^//@inject-into\s+(\S+)\s*$")


def prepare(scratch, extra_modules=None):
    """Additive injection into the snapshot: harness modules, `mod` lines,
    accessor snippets, tracing shim patch, offline config."""
    repo = scratch.repo
    injected = []
    for crate_dir in sorted(KANI_SRC.iterdir()):
        if not crate_dir.is_dir():
            continue
        crate = crate_dir.name
        src = repo / crate / "src"
        if not src.is_dir():
            raise Undecided(f"lost anchor: crate {crate} has no src/")
        lib = src / "lib.rs"
        add = []
        for f in sorted(crate_dir.glob("verif_*.rs")):
            text = f.read_text()
            # accessor snippets: blocks `//@inject-into <path>` + `//@| code` lines
            keep = []
            target = None
            for line in text.splitlines(keepends=True):
                m = INJECT_RE.match(line.strip())
                if m:
                    target = repo / m.group(1)
                    if not target.exists():
                        raise Undecided(f"lost anchor: inject target {m.group(1)} missing")
                    continue
                if line.lstrip().startswith("//@|") and target is not None:
                    with open(target, "a") as t:
                        t.write(line.split("//@|", 1)[1])
                    injected.append(f"appended accessor line to {target.relative_to(repo)}")
                    continue
                keep.append(line)
            (src / f.name).write_text("".join(keep))
            add.append(f"#[cfg(kani)]\nmod {f.stem};\n")
            injected.append(f"{crate}/src/{f.name}")
        for gen in (extra_modules or {}).get(crate, []):
            name, text = gen
            (src / f"{name}.rs").write_text(text)
            add.append(f"#[cfg(kani)]\nmod {name};\n")
            injected.append(f"{crate}/src/{name}.rs (generated)")
        if add:
            with open(lib, "a") as fh:
                fh.write("\n" + "".join(add))
    with open(repo / "Cargo.toml", "a") as fh:
        fh.write(f'\n[patch.crates-io]\ntracing = {{ path = "{SHIM}/tracing" }}\n')
    (repo / ".cargo").mkdir(exist_ok=True)
    (repo / ".cargo" / "config.toml").write_text("[net]\noffline = true\n")
    # warm dependency cache
    cache = CACHE_DIR / "kani-target"
    tgt = scratch.dir / "target"
    if cache.is_dir() and not tgt.exists():
        subprocess.run(["cp", "-a", "--reflink=auto", str(cache), str(tgt)], check=False)
    return injected


RESULT_RE = re.compile(r"^VERIFICATION:- (SUCCESSFUL|FAILED)")


def parse_output(out: str, harness_names):
    """Split combined `cargo kani -j N --output-format terse` output into
    per-harness blocks. Returns {name: {...}}."""
    res = {}
    cur_by_thread = {}
    cur = None
    block = {}
    lines = out.splitlines()
    single = None
    for ln in lines:
        m = re.match(r"^(?:Thread (\d+): )?Checking harness (\S+?)\.\.\.", ln)
        if m:
            th = m.group(1) or "0"
            name = m.group(2).split("::")[-1]
            cur_by_thread[th] = name
            block[name] = []
            if m.group(1) is None:
                cur = name
            continue
        m = re.match(r"^Thread (\d+):\s*$", ln)
        if m:
            cur = cur_by_thread.get(m.group(1))
            continue
        if cur is not None:
            block.setdefault(cur, []).append(ln)
            if ln.startswith("Verification Time:"):
                # end of this harness' block
                pass
    for name, blines in block.items():
        text = "\n".join(blines)
        r = {"raw": text, "status": "undecided", "checks": 0, "failed": 0, "covers": "", "time": 0.0,
             "failed_checks": []}
        m = re.search(r"\*\* (\d+) of (\d+) failed", text)
        if m:
            r["failed"] = int(m.group(1))
            r["checks"] = int(m.group(2))
        m = re.search(r"\*\* (\d+) of (\d+) cover properties satisfied", text)
        if m:
            r["covers"] = f"{m.group(1)}/{m.group(2)}"
        m = re.search(r"Verification Time: ([0-9.]+)s", text)
        if m:
            r["time"] = float(m.group(1))
        fc = re.findall(r'Failed Checks: (.*)\n\s*File: "([^"]+)", line (\d+)(?:, in (\S+))?', text)
        r["failed_checks"] = [{"check": a, "file": b, "line": int(c), "fn": d} for a, b, c, d in fc]
        if not fc:
            r["failed_checks"] = [{"check": a, "file": "", "line": 0, "fn": ""} for a in re.findall(r"Failed Checks: (.*)", text)]
        if re.search(r"^VERIFICATION:- SUCCESSFUL", text, re.M):
            r["status"] = "discharged"
        elif re.search(r"^VERIFICATION:- FAILED", text, re.M):
            r["status"] = "failed"
            low = text.lower()
            if "unwinding assertion" in low and all("unwinding assertion" in f["check"].lower() for f in r["failed_checks"]):
                r["status"] = "undecided"   # bound too small, not a refutation
            if "not currently supported by kani" in low or "a rust construct that is not currently supported" in low:
                r["status"] = "undecided"   # tool limit, not a refutation
            if "cbmc timed out" in low or "out of memory" in low or "timed out" in low and not r["failed_checks"]:
                r["status"] = "undecided"
        res[name] = r
    return res


BATCH = 120  # kani-driver keeps every harness' artefacts in memory: 250 harnesses in one
             # invocation reached 18 GB and were OOM-killed (measured)


def run_harnesses(scratch, crate: str, harnesses, jobs=None, extra_flags=None):
    """cargo-kani invocations (batches of at most BATCH harnesses) for the harnesses of a crate."""
    if len(harnesses) > BATCH:
        res, cmds, wall, texts = {}, [], 0.0, []
        for i in range(0, len(harnesses), BATCH):
            r, c, w, t = _run_harnesses(scratch, crate, harnesses[i:i + BATCH], jobs, extra_flags)
            res.update(r)
            cmds.append(c)
            wall += w
            texts.append(t)
        return res, cmds[0] + f"  (+{len(cmds) - 1} more batches)", wall, "\n".join(texts)
    return _run_harnesses(scratch, crate, harnesses, jobs, extra_flags)


def _run_harnesses(scratch, crate: str, harnesses, jobs=None, extra_flags=None):
    """One cargo-kani invocation for a batch of harnesses of a crate."""
    if not harnesses:
        return {}, "", 0.0, ""
    jobs = jobs or min(NCPU, max(1, len(harnesses)))
    tmo = max(h.timeout for h in harnesses)
    cmd = ["cargo", "kani", "-p", crate] + KANI_FLAGS + CRATE_FEATURES.get(crate, [])
    for h in harnesses:
        cmd += ["--harness", f"{h.module}::{h.name}"]
    cmd += ["--exact"]
    cmd += ["-j", str(jobs), "--harness-timeout", f"{tmo}s", "--output-format", "terse"]
    cmd += extra_flags or []
    env = {"CARGO_TARGET_DIR": str(scratch.dir / "target")}
    rc, out, err, wall = run(cmd, cwd=scratch.repo, env=env, timeout=tmo * max(1, (len(harnesses) + jobs - 1) // jobs) + 1800)
    text = out + "\n" + err
    if "error: could not compile" in text or "error[E" in text:
        errs = "\n".join(l for l in text.splitlines() if l.startswith("error") or l.strip().startswith("-->"))
        raise Undecided(f"harness crate {crate} does not compile against the current tree "
                        f"(lost anchor / changed declaration):\n{errs[-3000:]}")
    res = parse_output(out, [h.name for h in harnesses])
    return res, " ".join(cmd), wall, text


def exact_filter(harnesses):
    """Kani matches --harness by substring; make sure no selected name is a
    substring of an unselected one (names are unique by construction)."""
    return harnesses


_PLAYBACK_CACHE = {}


def playback(scratch, h: Harness):
    key = (h.crate, h.name)
    if key not in _PLAYBACK_CACHE:
        ct = scratch.repo / "Cargo.toml"
        saved = ct.read_text()
        try:
            _PLAYBACK_CACHE[key] = _playback(scratch, h)
        finally:
            ct.write_text(saved)
    return _PLAYBACK_CACHE[key]


def _playback(scratch, h: Harness):
    """Re-run one failing harness with concrete playback, then execute the
    generated test natively against the real code (cargo kani playback).
    Returns dict(confirmed: bool|None, values, test, log)."""
    cmd = ["cargo", "kani", "-p", h.crate] + KANI_FLAGS + ["-Z", "concrete-playback",
           "--concrete-playback=print"] + CRATE_FEATURES.get(h.crate, []) + \
          ["--harness", f"{h.module}::{h.name}", "--exact", "--harness-timeout", f"{h.timeout}s", "--output-format", "terse"]
    env = {"CARGO_TARGET_DIR": str(scratch.dir / "target")}
    rc, out, err, wall = run(cmd, cwd=scratch.repo, env=env, timeout=h.timeout + 900)
    blocks = re.findall(r"```\n(.*?)```", out, re.S)
    synthesized = False
    if blocks:
        # one generated test per failing check: keep them all (distinct names)
        seen = set()
        tests = []
        for b in blocks:
            nm = re.search(r"fn (kani_concrete_playback_[A-Za-z0-9_]+)", b)
            if nm and nm.group(1) not in seen:
                seen.add(nm.group(1))
                tests.append(b)
        test = "\n".join(tests)
    elif re.search(r"^VERIFICATION:- FAILED", out, re.M):
        # a harness without symbolic input (concrete table case): the failing "input" is
        # the harness itself; run it natively with an empty value vector
        synthesized = True
        test = (f"#[test]\nfn kani_concrete_playback_{h.name}_noinput() {{\n"
                f"    let concrete_vals: Vec<Vec<u8>> = vec![];\n"
                f"    kani::concrete_playback_run(concrete_vals, {h.name});\n}}\n")
    else:
        return {"confirmed": None, "log": (out + err)[-3000:], "values": None}
    names = re.findall(r"fn (kani_concrete_playback_[A-Za-z0-9_]+)", test)
    # append the generated tests to the harness module in the snapshot
    modfile = scratch.repo / h.crate / "src" / f"{h.module}.rs"
    with open(modfile, "a") as fh:
        fh.write("\n" + test + "\n")
    prefix = f"kani_concrete_playback_{h.name}"
    cmd2, env2 = playback_cmd(scratch, h.crate, prefix)
    rc2, out2, err2, wall2 = run(cmd2, cwd=scratch.repo, env=env2, timeout=1800)
    t2 = out2 + err2
    failed = re.findall(r"test \S*(kani_concrete_playback_[A-Za-z0-9_]+) \.\.\. FAILED", t2)
    passed = re.findall(r"test \S*(kani_concrete_playback_[A-Za-z0-9_]+) \.\.\. ok", t2)
    confirmed = None
    if failed:
        confirmed = True
    elif passed and len(passed) == len(names):
        confirmed = False
    # values of the (first) natively failing test, else of the first test
    pick = failed[0] if failed else (names[0] if names else None)
    values = []
    for b in (blocks or []):
        if pick and pick in b:
            vals = re.findall(r"^\s*//\s*(.+)\n\s*vec!\[([0-9, ]*)\]", b, re.M)
            values = [{"as_int": a.strip(), "bytes": [int(x) for x in bb.split(",") if x.strip()]} for a, bb in vals]
            break
    tname = pick or prefix
    panic = re.findall(r"panicked at ([^\n]*)\n([^\n]*)", t2)
    if (synthesized or not values) and confirmed:
        values = [{"as_int": "(no symbolic input: concrete case inside the harness)", "bytes": []}]
    elif synthesized:
        values = None
    return {"confirmed": confirmed, "values": values, "test": test, "test_name": tname,
            "native_panic": [" ".join(p) for p in panic][:3],
            "playback_cmd": " ".join(cmd2), "log": t2[-2500:]}


def playback_cmd(scratch, crate, tname):
    """Native build of the snapshot (default features, the REAL tracing crate:
    the shim patch is removed) running the generated concrete-playback test."""
    ct = scratch.repo / "Cargo.toml"
    text = ct.read_text()
    i = text.find("\n[patch.crates-io]\ntracing = ")
    if i >= 0:
        ct.write_text(text[:i] + "\n")
    cmd = ["cargo", "kani", "playback", "-Z", "concrete-playback", "-p", crate, "--", tname, "--nocapture"]
    env = {"CARGO_TARGET_DIR": str(scratch.dir / "target-native"), "RUSTFLAGS": "--cap-lints warn"}
    return cmd, env


def to_obligation(prop: str, h: Harness, r: dict | None) -> Obligation:
    ob = Obligation(id=f"{prop}/kani/{h.id}", engine="kani", backend="CBMC 6.11 (SAT: cadical) via Kani 0.68",
                    functions=h.functions, statement=h.statement, bounded=h.bounded,
                    report_only=h.report_only)
    if r is None:
        ob.status = "undecided"
        ob.detail = "no result block (timeout, out of memory, or harness not found)"
        return ob
    ob.solver_s = r["time"]
    if h.allow_panic_in and r["status"] == "failed":
        # panics inside the named functions are the contract's permitted loud
        # refusal ("if it returns, then ..."): they are not failures of the obligation
        rest = [f for f in r["failed_checks"]
                if not (any(f.get("fn", "").split("::")[-1] == a for a in h.allow_panic_in)
                        and not f["file"].endswith(f"{h.module}.rs"))]
        allowed = len(r["failed_checks"]) - len(rest)
        r = dict(r)
        r["failed_checks"] = rest
        r["allowed_refusals"] = allowed
        if not rest:
            r["status"] = "discharged"
    ob.checks = r["checks"]
    ob.covers = r["covers"]
    ob.status = r["status"]
    if r["status"] == "discharged" and r["covers"]:
        a, b = r["covers"].split("/")
        if a != b:
            ob.status = "undecided"
            ob.detail = f"vacuity guard: only {a} of {b} cover properties satisfied\n" + r["raw"][-1500:]
    if r["status"] == "discharged" and h.covers is not None:
        got = int(r["covers"].split("/")[1]) if r["covers"] else 0
        if got < h.covers:
            ob.status = "undecided"
            ob.detail = f"vacuity guard: expected >= {h.covers} cover properties, saw {got}"
    if r["status"] != "discharged":
        ob.detail = r["raw"][-3000:]
        ob.failed_clauses = [{"message": "assertion failed", "clause": f["check"].strip().strip('"'),
                              "at": f"{f['file']}:{f['line']}"} for f in r["failed_checks"]]
        ob.source = next((f"{f['file']}:{f['line']}" for f in r["failed_checks"] if f["file"]), "")
    return ob
