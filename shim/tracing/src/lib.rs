//! No-op stand-in for `tracing` (verification builds only).
//! Every event macro expands to nothing that is evaluated at run time: the
//! arguments are placed inside a closure that is never called, so they still
//! type-check and borrow-check but produce no code on the executed path.
pub use tracing_attributes::instrument;

#[doc(hidden)]
#[macro_export]
macro_rules! __verif_noop_event {
    ($($arg:tt)*) => {{
        let _ = || { let _ = ::core::format_args!($($arg)*); };
    }};
}
#[macro_export]
macro_rules! trace { ($($arg:tt)*) => { $crate::__verif_noop_event!($($arg)*) }; }
#[macro_export]
macro_rules! debug { ($($arg:tt)*) => { $crate::__verif_noop_event!($($arg)*) }; }
#[macro_export]
macro_rules! info { ($($arg:tt)*) => { $crate::__verif_noop_event!($($arg)*) }; }
#[macro_export]
macro_rules! warn { ($($arg:tt)*) => { $crate::__verif_noop_event!($($arg)*) }; }
#[macro_export]
macro_rules! error { ($($arg:tt)*) => { $crate::__verif_noop_event!($($arg)*) }; }
