// Verus unit `framing`: size-byte arithmetic (insim/src/net/mode.rs) and the frame
// handling of Codec::encode / Codec::decode (insim/src/net/codec.rs).
//
// The bodies between "ITEM" and "END" are cut out of the /repo snapshot on every run
// (lib/vf/extract.py); only the rewrites named in each block are applied.
//
//@@ PROP C03: Mode::encode_length, Mode::max_length, Mode::valid_raw_buffer_min_len, Codec::encode, lemma_count_overflows_frame
//@@ PROP C04: Mode::decode_length, Mode::max_length, Mode::valid_raw_buffer_min_len, Codec::decode
//@@ REAL Mode::encode_length: insim/src/net/mode.rs Mode::encode_length
//@@ REAL Mode::decode_length: insim/src/net/mode.rs Mode::decode_length
//@@ REAL Mode::max_length: insim/src/net/mode.rs Mode::max_length
//@@ REAL Mode::valid_raw_buffer_min_len: insim/src/net/mode.rs Mode::valid_raw_buffer_min_len
//@@ REAL Codec::encode: insim/src/net/codec.rs Codec::encode
//@@ REAL Codec::decode: insim/src/net/codec.rs Codec::decode
//@@ STATEMENT Mode::encode_length: for every usize length and both modes: if the call returns, it returns Ok(n) and len is a multiple of 4 with 4 <= len <= max(mode), n == len (uncompressed) or 4*n == len (compressed); refusal (panic) is the only other outcome
//@@ STATEMENT Mode::decode_length: for every buffer: Ok(Some(n)) => 4 <= n == announced <= |src| and n <= max; Ok(None) => |src| < 4 or |src| < announced; Err => announced > max or announced < 4
//@@ STATEMENT Codec::encode: for every packet and every byte string w the packet writer appends: Ok(b) => b == [size(mode,1+|w|)] ++ w, |b| % 4 == 0, 4 <= |b| <= max(mode); a writer error is propagated
//@@ STATEMENT Codec::decode: for every buffer and EVERY behaviour of the packet parser: Ok(None) leaves src untouched; otherwise either a framing error (src untouched) or exactly the announced frame (>= 4 bytes) is removed from the front, the parser saw frame[1..n] only and its result is returned
//@@ STATEMENT lemma_count_overflows_frame: a packet with >= 256 elements of >= 4 bytes each is larger than 1020 bytes, so a wrapped count byte can never be emitted because encode_length refuses first
//@@ TWIN Mode::encode_length: insim c03_encode_length_twin
//@@ TWIN Mode::decode_length: insim c04_decode_length_twin
//@@ CANARY canary_framing
//@@ ASSUME 64-bit target: `global size_of usize == 8`
//@@ ASSUME A2 bytes::BytesMut::{len,is_empty,first,split_to,advance} behave as the stand-in contracts below (split_to/advance panic when the count exceeds the length => modelled as preconditions)
//@@ ASSUME A2 std::io::Cursor<Vec<u8>>::{write,write_all,position,set_position,into_inner} behave as the stand-in contracts below
//@@ ASSUME io::Error / binrw::Error / crate::Error are merged into one opaque stand-in `Error` carrying only a ghost "framing vs parse" tag; the From conversions performed by `?` are dropped
//@@ ASSUME Packet::read is an arbitrary deterministic function of the bytes visible through the cursor it is given (uninterpreted spec fn parse_frame); Packet::write appends an arbitrary byte string (uninterpreted spec fn packet_bytes) at the cursor position or fails
use vstd::prelude::*;

verus! {

global size_of usize == 8;

// ---------------------------------------------------------------- stand-ins
pub enum ErrorKind { InvalidData, Other }

#[verifier::external_body]
pub struct Error { _p: u8 }

impl Error {
    pub uninterp spec fn is_framing(&self) -> bool;
}

pub struct io { }
impl io {
    // stand-in for io::Error::new(io::ErrorKind::InvalidData, "...")
    #[verifier::external_body]
    pub fn error_new(kind: ErrorKind, msg: &str) -> (e: Error)
        ensures e.is_framing()
    { unimplemented!() }
}

#[verifier::external_body]
pub fn refuse() -> !
    ensures false
{ panic!() }

#[verifier::external_body]
pub struct BytesMut { _p: u8 }

impl View for BytesMut {
    type V = Seq<u8>;
    uninterp spec fn view(&self) -> Seq<u8>;
}

impl BytesMut {
    #[verifier::external_body]
    pub fn len(&self) -> (n: usize)
        ensures n == self@.len()
    { unimplemented!() }

    #[verifier::external_body]
    pub fn is_empty(&self) -> (b: bool)
        ensures b == (self@.len() == 0)
    { unimplemented!() }

    #[verifier::external_body]
    pub fn first(&self) -> (r: Option<&u8>)
        ensures
            self@.len() == 0 ==> r is None,
            self@.len() > 0 ==> r == Some(&self@[0]),
    { unimplemented!() }

    // bytes::BytesMut::split_to panics if at > len
    #[verifier::external_body]
    pub fn split_to(&mut self, at: usize) -> (r: BytesMut)
        requires at <= old(self)@.len()
        ensures
            r@ == old(self)@.subrange(0, at as int),
            final(self)@ == old(self)@.subrange(at as int, old(self)@.len() as int),
    { unimplemented!() }

    // bytes::Buf::advance panics if cnt > remaining
    #[verifier::external_body]
    pub fn advance(&mut self, cnt: usize)
        requires cnt <= old(self)@.len()
        ensures final(self)@ == old(self)@.subrange(cnt as int, old(self)@.len() as int),
    { unimplemented!() }
}

#[verifier::external_body]
pub struct Packet { _p: u8 }

#[verifier::external_body]
pub struct Bytes { _p: u8 }

impl View for Bytes {
    type V = Seq<u8>;
    uninterp spec fn view(&self) -> Seq<u8>;
}

#[verifier::external_body]
pub fn bytes_from_vec(v: Vec<u8>) -> (b: Bytes)
    ensures b@ == v@
{ unimplemented!() }

// what the (unverified here) packet writer appends for a packet: arbitrary
pub uninterp spec fn packet_bytes(p: &Packet) -> Seq<u8>;
// what the (unverified here) packet parser returns for the bytes it can see: arbitrary
pub uninterp spec fn parse_frame(visible: Seq<u8>) -> Result<Packet, Error>;

#[verifier::external_body]
pub fn packet_size_hint(p: &Packet) -> (n: usize)
{ unimplemented!() }

// std::io::Cursor<Vec<u8>>
pub struct Cursor {
    pub buf: Vec<u8>,
    pub pos: u64,
}

impl Cursor {
    pub fn new(v: Vec<u8>) -> (c: Cursor)
        ensures c.buf@ == v@, c.pos == 0
    { Cursor { buf: v, pos: 0 } }

    // Write for Cursor<Vec<u8>>: never short, never fails; overwrites then extends
    #[verifier::external_body]
    pub fn write(&mut self, data: &[u8]) -> (r: Result<usize, Error>)
        requires old(self).pos <= old(self).buf@.len(), data@.len() == 1
        ensures
            r is Ok, r->Ok_0 == 1,
            final(self).pos == old(self).pos + 1,
            old(self).pos == old(self).buf@.len() ==> final(self).buf@ == old(self).buf@.push(data@[0]),
            old(self).pos < old(self).buf@.len() ==> final(self).buf@ == old(self).buf@.update(old(self).pos as int, data@[0]),
    { unimplemented!() }

    #[verifier::external_body]
    pub fn write_all(&mut self, data: &[u8]) -> (r: Result<(), Error>)
        requires old(self).pos <= old(self).buf@.len(), data@.len() == 1
        ensures
            r is Ok,
            final(self).pos == old(self).pos + 1,
            old(self).pos == old(self).buf@.len() ==> final(self).buf@ == old(self).buf@.push(data@[0]),
            old(self).pos < old(self).buf@.len() ==> final(self).buf@ == old(self).buf@.update(old(self).pos as int, data@[0]),
    { unimplemented!() }

    pub fn position(&self) -> (p: u64)
        ensures p == self.pos
    { self.pos }

    pub fn set_position(&mut self, p: u64)
        ensures final(self).pos == p, final(self).buf@ == old(self).buf@
    { self.pos = p; }

    pub fn into_inner(self) -> (v: Vec<u8>)
        ensures v@ == self.buf@
    { self.buf }
}

// msg.write(&mut writer): binrw writer for Packet, appends at the end or fails
#[verifier::external_body]
pub fn packet_write(msg: &Packet, w: &mut Cursor) -> (r: Result<(), Error>)
    requires old(w).pos == old(w).buf@.len()
    ensures
        r is Ok ==> final(w).buf@ == old(w).buf@ + packet_bytes(msg)
            && final(w).pos == old(w).pos + packet_bytes(msg).len(),
        r is Err ==> !r->Err_0.is_framing(),
{ unimplemented!() }

// cursor handed to the parser (std::io::Cursor over the frame, or over a slice of the buffer):
// only the bytes it makes visible matter
pub struct FrameCursor {
    pub view: Ghost<Seq<u8>>,
}

impl FrameCursor {
    // std::io::Cursor::new(&data)
    pub fn new(d: &BytesMut) -> (c: FrameCursor)
        ensures c.view@ == d@
    { FrameCursor { view: Ghost(d@) } }

    // std::io::Cursor::new(&buf[from..to]) - slicing panics when out of range
    pub fn over(d: &BytesMut, from: usize, to: usize) -> (c: FrameCursor)
        requires from <= to, to <= d@.len()
        ensures c.view@ == d@.subrange(from as int, to as int)
    { FrameCursor { view: Ghost(d@.subrange(from as int, to as int)) } }
}

// Packet::read(&mut cursor): sees exactly the cursor's bytes
#[verifier::external_body]
pub fn packet_read(c: &mut FrameCursor) -> (r: Result<Packet, Error>)
    ensures
        r == parse_frame(old(c).view@),
        final(c).view@ == old(c).view@,
        r is Err ==> !r->Err_0.is_framing(),
{ unimplemented!() }

// ---------------------------------------------------------------- spec
pub open spec fn spec_max(m: Mode) -> int {
    match m { Mode::Uncompressed => 255, Mode::Compressed => 1020 }
}

pub open spec fn announced(m: Mode, b0: u8) -> int {
    match m { Mode::Uncompressed => b0 as int, Mode::Compressed => 4 * (b0 as int) }
}

pub open spec fn size_byte_ok(m: Mode, n: u8, len: int) -> bool {
    &&& len % 4 == 0
    &&& 4 <= len <= spec_max(m)
    &&& match m { Mode::Uncompressed => n as int == len, Mode::Compressed => 4 * (n as int) == len }
}

// ---------------------------------------------------------------- real code
//@@ ITEM Mode
//@@ file: insim/src/net/mode.rs
//@@ anchor: pub enum Mode
//@@ strip-attrs
//@@ END

impl Mode {
//@@ ITEM encode_length
//@@ file: insim/src/net/mode.rs
//@@ anchor: pub fn encode_length(&self, len: usize) -> io::Result<u8>
//@@ ret: r
//@@ rewrite: io::Result<u8> => Result<u8, Error>
//@@ refuse: panic!
//@@ contract:
//@@|        ensures
//@@|            // (only reached when the call returns at all: refusal = panic is allowed)
//@@|            r is Ok,
//@@|            len >= 4,
//@@|            len % 4 == 0,
//@@|            len <= spec_max(*self),
//@@|            match *self { Mode::Uncompressed => r->Ok_0 as int == len, Mode::Compressed => 4 * (r->Ok_0 as int) == len },
//@@ END

//@@ ITEM decode_length
//@@ file: insim/src/net/mode.rs
//@@ anchor: pub fn decode_length(&self, src: &BytesMut) -> io::Result<Option<usize>>
//@@ ret: r
//@@ rewrite: io::Result<Option<usize>> => Result<Option<usize>, Error>
//@@ rewrite: io::Error::new\(\s*io::ErrorKind::InvalidData, => io::error_new(ErrorKind::InvalidData,
//@@ contract:
//@@|        ensures
//@@|            // a length is announced only for a complete frame that is really there
//@@|            r matches Ok(Some(n)) ==> src@.len() >= 4 && n as int == announced(*self, src@[0]) && n <= src@.len(),
//@@|            // ... of at least the 4-byte minimum
//@@|            r matches Ok(Some(n)) ==> 4 <= n,
//@@|            // ... and at most the mode's maximum
//@@|            r matches Ok(Some(n)) ==> n <= spec_max(*self),
//@@|            // need more data
//@@|            r matches Ok(None) ==> src@.len() < 4 || src@.len() < announced(*self, src@[0]),
//@@|            // framing error only for an impossible announced length
//@@|            r matches Err(e) ==> e.is_framing() && src@.len() >= 4
//@@|                && (announced(*self, src@[0]) > spec_max(*self) || announced(*self, src@[0]) < 4),
//@@ END

//@@ ITEM valid_raw_buffer_min_len
//@@ file: insim/src/net/mode.rs
//@@ anchor: fn valid_raw_buffer_min_len(&self) -> usize
//@@ ret: r
//@@ contract:
//@@|        ensures r == 4,
//@@ END

//@@ ITEM max_length
//@@ file: insim/src/net/mode.rs
//@@ anchor: pub fn max_length(&self) -> usize
//@@ ret: r
//@@ contract:
//@@|        ensures r == spec_max(*self),
//@@ END
}

//@@ ITEM Codec
//@@ file: insim/src/net/codec.rs
//@@ anchor: pub struct Codec
//@@ strip-attrs
//@@ END

impl Codec {
    pub closed spec fn spec_mode(&self) -> Mode { self.mode }

//@@ ITEM mode
//@@ file: insim/src/net/codec.rs
//@@ anchor: pub fn mode(&self) -> &Mode
//@@ ret: r
//@@ contract:
//@@|        ensures *r == self.spec_mode(),
//@@ END

//@@ ITEM encode
//@@ file: insim/src/net/codec.rs
//@@ anchor: pub fn encode(&self, msg: &Packet) -> Result<Bytes>
//@@ ret: r
//@@ rewrite: Result<Bytes> => Result<Bytes, Error>
//@@ rewrite: msg\.size_hint\(\) => packet_size_hint(msg)
//@@ rewrite: msg\.write\(&mut writer\) => packet_write(msg, &mut writer)
//@@ rewrite: data\.into\(\) => bytes_from_vec(data)
//@@ contract:
//@@|        ensures
//@@|            // one frame: size byte followed by exactly what the packet writer produced
//@@|            r matches Ok(b) ==> b@.len() == 1 + packet_bytes(msg).len()
//@@|                && b@.subrange(1, b@.len() as int) =~= packet_bytes(msg),
//@@|            // the size byte describes the whole frame, which is a legal length
//@@|            r matches Ok(b) ==> size_byte_ok(self.spec_mode(), b@[0], b@.len() as int),
//@@|            r matches Err(e) ==> !e.is_framing(),
//@@ proof-after: let data = writer.into_inner();
//@@|        proof {
//@@|            assert(data@.subrange(1, data@.len() as int) =~= packet_bytes(msg));
//@@|        }
//@@ END

//@@ ITEM decode
//@@ file: insim/src/net/codec.rs
//@@ anchor: pub fn decode(&self, src: &mut BytesMut) -> Result<Option<Packet>>
//@@ ret: r
//@@ rewrite: Result<Option<Packet>> => Result<Option<Packet>, Error>
//@@ rewrite-any: std::io::Cursor::new\(&data\) => FrameCursor::new(&data) || std::io::Cursor::new\(&src\[(\w+)\.\.(\w+)\]\) => FrameCursor::over(src, \1, \2) || std::io::Cursor::new\(&src\[(\w+)\.\.\]\) => FrameCursor::over(src, \1, src.len())
//@@ rewrite: Packet::read\(&mut cursor\) => packet_read(&mut cursor)
//@@ contract:
//@@|        ensures
//@@|            // need more data: buffer untouched
//@@|            r matches Ok(None) ==> final(src)@ == old(src)@
//@@|                && (old(src)@.len() < 4 || old(src)@.len() < announced(self.spec_mode(), old(src)@[0])),
//@@|            // a packet: exactly the announced frame left the front, parser saw frame[1..n] only
//@@|            r matches Ok(Some(p)) ==> decoded_frame(self.spec_mode(), old(src)@, final(src)@)
//@@|                && (exists|vis: Seq<u8>| #[trigger] parse_frame(vis) == Ok::<Packet, Error>(p)
//@@|                    && vis =~= frame_body(self.spec_mode(), old(src)@)),
//@@|            // framing error: impossible announced length, buffer untouched
//@@|            r matches Err(e) ==> e.is_framing() ==> final(src)@ == old(src)@ && old(src)@.len() >= 4
//@@|                && (announced(self.spec_mode(), old(src)@[0]) > spec_max(self.spec_mode())
//@@|                    || announced(self.spec_mode(), old(src)@[0]) < 4),
//@@|            // decode error: the frame is gone all the same, successors undisturbed
//@@|            r matches Err(e) ==> !e.is_framing() ==> decoded_frame(self.spec_mode(), old(src)@, final(src)@)
//@@|                && (exists|vis: Seq<u8>| #[trigger] parse_frame(vis) == Err::<Packet, Error>(e)
//@@|                    && vis =~= frame_body(self.spec_mode(), old(src)@)),
//@@ END
}

// exactly the announced frame (>= 4 bytes, <= announced, <= what was there) left the front
pub open spec fn decoded_frame(m: Mode, before: Seq<u8>, after: Seq<u8>) -> bool {
    &&& before.len() >= 4
    &&& 4 <= announced(m, before[0]) <= before.len()
    &&& announced(m, before[0]) <= spec_max(m)
    &&& after =~= before.subrange(announced(m, before[0]), before.len() as int)
}

// the only bytes the parser is shown: the frame without its size byte
pub open spec fn frame_body(m: Mode, before: Seq<u8>) -> Seq<u8> {
    before.subrange(1, announced(m, before[0]))
}

// ---------------------------------------------------------------- lemmas
// C03: "any element-count byte equals the number of elements that follow": a count that
// does not fit the byte (>= 256 elements of >= 4 bytes) makes the frame longer than any
// legal frame, and encode_length's contract then forbids a normal return.
pub proof fn lemma_count_overflows_frame(count: int, elem: int, header: int)
    requires count >= 256, elem >= 4, header >= 4
    ensures header + count * elem > 1020
{
    assert(count * elem >= 256 * 4) by (nonlinear_arith)
        requires count >= 256, elem >= 4;
}

// vacuity guards: preconditions are inhabited, and the prelude is not contradictory
pub proof fn witness_size_byte_ok()
    ensures size_byte_ok(Mode::Compressed, 1u8, 4), size_byte_ok(Mode::Uncompressed, 252u8, 252),
        size_byte_ok(Mode::Compressed, 255u8, 1020)
{
}

pub proof fn canary_framing()
{
    assert(false);
}

} // verus!

fn main() {}
