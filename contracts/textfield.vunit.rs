// Verus unit `textfield`: the width / truncation / padding logic of the text-field writer
// insim_core/src/string/mod.rs `binrw_write_codepage_string::<SIZE>` for EVERY field width,
// EVERY encoded text (arbitrary bytes of any length: multi-byte and multi-codepage text
// included, because the logic only sees the encoded bytes) and both modes.
//
//@@ PROP C11: binrw_write_codepage_string, lemma_round_up_4
//@@ REAL binrw_write_codepage_string: insim_core/src/string/mod.rs binrw_write_codepage_string
//@@ STATEMENT binrw_write_codepage_string: for every SIZE, every encoded text enc (any bytes, any length) and raw or not: fixed mode (align_to <= 1) writes exactly SIZE bytes = enc truncated to SIZE, then NULs; aligned mode (align_to == 4, SIZE a multiple of 4) writes enc truncated to SIZE, NUL-padded to a multiple of 4, never more than SIZE bytes and with fewer than 4 padding bytes; nothing else is written; a sink error is propagated
//@@ STATEMENT lemma_round_up_4: (n + 3) & !3 is the least multiple of 4 that is >= n (bit-vector proof)
//@@ CANARY canary_textfield
//@@ ASSUME 64-bit target: `global size_of usize == 8`
//@@ ASSUME the `#[binrw::writer(writer, endian)]` attribute adds the parameters `writer` and `endian`; the sink is a stand-in whose `write_options` appends the bytes or fails
//@@ ASSUME the initial `if raw { input.as_bytes().to_vec() } else { codepages::to_lossy_bytes(input).to_vec() }` is replaced by one external call returning the encoded bytes (uninterpreted: any byte string)
//@@ ASSUME String::len() returns the UTF-8 length, modelled as an uninterpreted number unrelated to the encoded length
//@@ ASSUME bytes::BufMut::put_bytes(0, n) on Vec<u8> appends n zero bytes (stand-in contract)
use vstd::prelude::*;

verus! {

global size_of usize == 8;

#[verifier::external_body]
pub struct BinError { _p: u8 }

pub struct Endian { }

pub struct Sink {
    pub out: Vec<u8>,
}

pub uninterp spec fn encoded(input: &String, raw: bool) -> Seq<u8>;

// the UTF-8 length of the text: some number, unrelated to the encoded length
pub uninterp spec fn utf8_len(s: &String) -> usize;

pub assume_specification[ std::string::String::len ](s: &String) -> (n: usize)
    ensures n == utf8_len(s);

#[verifier::external_body]
pub fn encode_text(input: &String, raw: bool) -> (r: Vec<u8>)
    ensures r@ == encoded(input, raw)
{ unimplemented!() }

#[verifier::external_body]
pub fn put_zero_bytes(n: usize, v: &mut Vec<u8>)
    ensures final(v)@ == old(v)@ + Seq::new(n as nat, |i: int| 0u8)
{ unimplemented!() }

#[verifier::external_body]
pub fn write_bytes(v: &Vec<u8>, writer: &mut Sink, endian: Endian) -> (r: Result<(), BinError>)
    ensures
        r is Ok ==> final(writer).out@ == old(writer).out@ + v@,
        r is Err ==> final(writer).out@ == old(writer).out@,
{ unimplemented!() }

pub open spec fn zeros(n: int) -> Seq<u8> {
    Seq::new(n as nat, |i: int| 0u8)
}

pub open spec fn min(a: int, b: int) -> int { if a < b { a } else { b } }

pub open spec fn round4(n: int) -> int { if n % 4 == 0 { n } else { n + (4 - n % 4) } }

/// the field image the property statement describes
pub open spec fn spec_field(enc: Seq<u8>, size: int, aligned: bool) -> Seq<u8> {
    let keep = min(enc.len() as int, size);
    if aligned {
        enc.subrange(0, keep) + zeros(min(round4(enc.len() as int), size) - keep)
    } else {
        enc.subrange(0, keep) + zeros(size - keep)
    }
}

pub proof fn lemma_round_up_4(n: usize)
    requires n <= 0xffff_ffff
    ensures ((n + 3) as usize & !3usize) as int == round4(n as int)
{
    assert(((n + 3) as usize & !3usize) % 4 == 0 && ((n + 3) as usize & !3usize) >= n && ((n + 3) as usize & !3usize) < n + 4) by (bit_vector)
        requires n <= 0xffff_ffff;
}

//@@ ITEM binrw_write_codepage_string
//@@ file: insim_core/src/string/mod.rs
//@@ anchor: pub fn binrw_write_codepage_string<const SIZE: usize>(
//@@ as-free-fn: binrw_write_codepage_string<const SIZE: usize>(input: &String, raw: bool, align_to: u8, writer: &mut Sink, endian: Endian) -> Result<(), BinError>
//@@ ret: r
//@@ rewrite: (?s)if raw \{\s*input\.as_bytes\(\)\.to_vec\(\)\s*\} else \{\s*codepages::to_lossy_bytes\(input\)\.to_vec\(\)\s*\} => encode_text(input, raw)
//@@ rewrite: res\.put_bytes\(0, ([^;]*)\); => put_zero_bytes(\1, &mut res);
//@@ rewrite: res\.write_options\(writer, endian, \(\)\) => write_bytes(&res, writer, endian)
//@@ contract:
//@@|    requires
//@@|        align_to <= 1 || align_to == 4,
//@@|        align_to == 4 ==> SIZE % 4 == 0,
//@@|        encoded(input, raw).len() <= 0xffff_ff00,
//@@|        SIZE <= 0xffff_ff00,
//@@|    ensures
//@@|        // exactly the field image of the property statement is appended to the sink
//@@|        r is Ok ==> final(writer).out@ == old(writer).out@ + spec_field(encoded(input, raw), SIZE as int, align_to == 4),
//@@|        // a fixed-width field occupies exactly its SIZE bytes
//@@|        r is Ok && align_to <= 1 ==> final(writer).out@.len() == old(writer).out@.len() + SIZE,
//@@|        // a variable-width field is a multiple of 4 and never exceeds its maximum
//@@|        r is Ok && align_to == 4 ==> (final(writer).out@.len() - old(writer).out@.len()) % 4 == 0
//@@|            && final(writer).out@.len() - old(writer).out@.len() <= SIZE,
//@@|        r is Err ==> final(writer).out@ == old(writer).out@,
//@@ proof-after: let round_to =
//@@|        proof {
//@@|            lemma_round_up_4(res.len());
//@@|        }
//@@ END

pub proof fn witness_textfield()
    ensures
        spec_field(seq![65u8, 66u8], 4, false) =~= seq![65u8, 66u8, 0u8, 0u8],
        spec_field(seq![65u8, 66u8, 67u8, 68u8, 69u8], 4, false) =~= seq![65u8, 66u8, 67u8, 68u8],
        spec_field(seq![65u8], 8, true) =~= seq![65u8, 0u8, 0u8, 0u8],
{
}

pub proof fn canary_textfield()
{
    assert(false);
}

} // verus!

fn main() {}
