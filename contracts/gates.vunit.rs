// Verus unit `gates`: the two decisions the connection read path delegates to Packet
// (insim/src/packet.rs): keep-alive detection (C07) and the InSim version gate (C09).
// The real `enum Packet` (all 73 variants) is extracted; every payload type except Tiny
// and Ver is replaced by a generated opaque struct, so the proofs hold for EVERY packet
// kind and EVERY value of its fields.
//
//@@ PROP C07: Packet::maybe_pong, Tiny::is_keepalive
//@@ PROP C09: Packet::maybe_verify_version
//@@ REAL Packet::maybe_pong: insim/src/packet.rs Packet::maybe_pong
//@@ REAL Tiny::is_keepalive: insim/src/insim/tiny.rs Tiny::is_keepalive
//@@ REAL Packet::maybe_verify_version: insim/src/packet.rs Packet::maybe_verify_version
//@@ STATEMENT Packet::maybe_pong: for EVERY packet of every kind: the result is Some(TINY with sub-type NONE and request id 0) iff the packet is a TINY of sub-type NONE with request id 0; None for every other TINY (all sub-types, all request ids) and for every other kind
//@@ STATEMENT Tiny::is_keepalive: true iff sub-type NONE and request id 0
//@@ STATEMENT Packet::maybe_verify_version: for EVERY packet: a VER packet gives Ok(true) iff its InSim version is 9 and otherwise Err(IncompatibleVersion(v)) carrying that v; every other kind gives Ok(false) - never an error
//@@ CANARY canary_gates
//@@ ASSUME crate::error::Error is replaced by a two-variant stand-in (IncompatibleVersion(u8) | Other); payload types other than Tiny/Ver are opaque; GameVersion is opaque
//@@ ASSUME derive(PartialEq) on TinyType and RequestId is structural equality (the derives are dropped by extraction; `==` on them is given its structural meaning via spec below)
use vstd::prelude::*;

verus! {

pub enum InsimError {
    IncompatibleVersion(u8),
    Other,
}

#[verifier::external_body]
pub struct GameVersion { _p: u8 }

//@@ GEN opaque-payloads enum=Packet except=Tiny,Ver

//@@ ITEM VERSION
//@@ file: insim/src/lib.rs
//@@ anchor: pub const VERSION: u8
//@@ const
//@@ END

//@@ ITEM RequestId
//@@ file: insim/src/identifiers/request.rs
//@@ anchor: pub struct RequestId(pub u8);
//@@ const
//@@ END

//@@ ITEM TinyType
//@@ file: insim/src/insim/tiny.rs
//@@ anchor: pub enum TinyType
//@@ strip-attrs
//@@ END

//@@ ITEM Tiny
//@@ file: insim/src/insim/tiny.rs
//@@ anchor: pub struct Tiny
//@@ strip-attrs
//@@ END

//@@ ITEM Ver
//@@ file: insim/src/insim/ver.rs
//@@ anchor: pub struct Ver
//@@ strip-attrs
//@@ END

//@@ ITEM Packet
//@@ file: insim/src/packet.rs
//@@ anchor: pub enum Packet
//@@ strip-attrs
//@@ END

pub open spec fn is_keepalive_packet(p: Packet) -> bool {
    p matches Packet::Tiny(t) && t.subt == TinyType::None && t.reqi.0 == 0
}

impl Tiny {
//@@ ITEM is_keepalive
//@@ file: insim/src/insim/tiny.rs
//@@ anchor: pub fn is_keepalive(&self) -> bool
//@@ ret: r
//@@ rewrite: self\.subt == TinyType::None => matches!(self.subt, TinyType::None)
//@@ rewrite: self\.reqi == RequestId\(0\) => self.reqi.0 == 0
//@@ contract:
//@@|        ensures r == (self.subt == TinyType::None && self.reqi.0 == 0),
//@@ END
}

impl Packet {
//@@ ITEM maybe_pong
//@@ file: insim/src/packet.rs
//@@ anchor: pub fn maybe_pong(&self) -> Option<Self>
//@@ ret: r
//@@ contract:
//@@|        ensures
//@@|            // a reply exactly for keep-alives
//@@|            r is Some <==> is_keepalive_packet(*self),
//@@|            // and the reply is TINY_NONE with request id 0
//@@|            r matches Some(q) ==> is_keepalive_packet(q),
//@@ END

//@@ ITEM maybe_verify_version
//@@ file: insim/src/packet.rs
//@@ anchor: pub fn maybe_verify_version(&self) -> crate::result::Result<bool>
//@@ ret: r
//@@ rewrite: crate::result::Result<bool> => Result<bool, InsimError>
//@@ rewrite: crate::error::Error:: => InsimError::
//@@ rewrite: crate::VERSION => VERSION
//@@ contract:
//@@|        ensures
//@@|            // the library speaks InSim 9
//@@|            VERSION == 9,
//@@|            // a version packet passes iff it reports version 9 ...
//@@|            self matches Packet::Ver(v) ==> (v.insimver == 9 ==> r == Ok::<bool, InsimError>(true)),
//@@|            // ... otherwise the error carries the offending value
//@@|            self matches Packet::Ver(v) ==> (v.insimver != 9 ==> r == Err::<bool, InsimError>(InsimError::IncompatibleVersion(v.insimver))),
//@@|            // no other packet kind is ever rejected by the gate
//@@|            !(self is Ver) ==> r == Ok::<bool, InsimError>(false),
//@@ END
}

pub proof fn witness_gates()
    ensures
        is_keepalive_packet(Packet::Tiny(Tiny { reqi: RequestId(0), subt: TinyType::None })),
        !is_keepalive_packet(Packet::Tiny(Tiny { reqi: RequestId(1), subt: TinyType::None })),
        !is_keepalive_packet(Packet::Tiny(Tiny { reqi: RequestId(0), subt: TinyType::Ping })),
{
}

pub proof fn canary_gates()
{
    assert(false);
}

} // verus!

fn main() {}
