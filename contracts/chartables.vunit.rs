// Verus unit `chartables`: the character tables of insim_core/src/string
// (escaping.rs, colours.rs, control.rs, codepages.rs), extracted from the trait impls for
// `char` as free functions (`self` -> `c`).
//
//@@ PROP C12: try_lfs_escape, try_lfs_unescape, is_lfs_colour, is_lfs_control_char, lfs_control_char, lemma_escape_inverse, lemma_escape_letters_are_safe
//@@ PROP C10: as_lfs_codepage, is_lfs_codepage, propagate_lfs_codepage, lemma_codepage_table
//@@ REAL try_lfs_escape: insim_core/src/string/escaping.rs <char as Escape>::try_lfs_escape
//@@ REAL try_lfs_unescape: insim_core/src/string/escaping.rs <char as Escape>::try_lfs_unescape
//@@ REAL is_lfs_colour: insim_core/src/string/colours.rs <char as Colour>::is_lfs_colour
//@@ REAL is_lfs_control_char: insim_core/src/string/control.rs <char as ControlCharacter>::is_lfs_control_char
//@@ REAL lfs_control_char: insim_core/src/string/control.rs <char as ControlCharacter>::lfs_control_char
//@@ REAL as_lfs_codepage: insim_core/src/string/codepages.rs <char as Codepage>::as_lfs_codepage
//@@ REAL is_lfs_codepage: insim_core/src/string/codepages.rs <char as Codepage>::is_lfs_codepage
//@@ REAL propagate_lfs_codepage: insim_core/src/string/codepages.rs <char as Codepage>::propagate_lfs_codepage
//@@ STATEMENT try_lfs_escape: for every char: exactly LFS's escape table (^ -> ^, | -> v, * -> a, : -> c, \ -> d, / -> s, ? -> q, " -> t, < -> l, > -> r, # -> h), None otherwise
//@@ STATEMENT try_lfs_unescape: for every char: exactly the inverse table, None otherwise
//@@ STATEMENT is_lfs_colour: true exactly for the digits 0..9
//@@ STATEMENT is_lfs_control_char: true exactly for the caret
//@@ STATEMENT lfs_control_char: the caret
//@@ STATEMENT lemma_escape_inverse: unescape(escape(c)) == c and escape(unescape(d)) == d wherever defined
//@@ STATEMENT lemma_escape_letters_are_safe: an escape letter is never a colour digit, a codepage letter, a reserved character or the caret
//@@ STATEMENT as_lfs_codepage: for every char: L,8 -> 1252; G -> 1253; C -> 1251; E -> 1250; T -> 1254; B -> 1257; J -> 932 (Shift_JIS); S -> 936 (GBK); K -> 949 (EUC-KR); H -> 950 (Big5); None otherwise (the encoding is identified by the name of the encoding_rs static)
//@@ STATEMENT is_lfs_codepage: true exactly for the eleven marker letters
//@@ STATEMENT propagate_lfs_codepage: true exactly for '8'
//@@ STATEMENT lemma_codepage_table: is_lfs_codepage(c) <=> as_lfs_codepage(c) is Some
//@@ TWIN try_lfs_escape: insim_core c12_escape_tables
//@@ TWIN try_lfs_unescape: insim_core c12_escape_tables
//@@ TWIN is_lfs_colour: insim_core c12_escape_tables
//@@ TWIN as_lfs_codepage: insim_core c10_codepage_table_char
//@@ TWIN is_lfs_codepage: insim_core c10_codepage_table_char
//@@ TWIN propagate_lfs_codepage: insim_core c10_codepage_table_char
//@@ CANARY canary_chartables
//@@ ASSUME trait impls for `char` are extracted as free functions (`self` -> `c`, associated calls -> the extracted free functions); `encoding_rs::NAME` statics are replaced by the variants of a stand-in enum with the same names (identity of a static = its name)
use vstd::prelude::*;

verus! {

#[allow(non_camel_case_types)]
#[derive(PartialEq, Eq)]
pub enum Enc {
    WINDOWS_1250, WINDOWS_1251, WINDOWS_1252, WINDOWS_1253, WINDOWS_1254, WINDOWS_1257,
    SHIFT_JIS, GBK, EUC_KR, BIG5,
    ISO_8859_2, ISO_8859_7, ISO_8859_13, ISO_8859_9,
}

pub open spec fn spec_escape(c: char) -> Option<char> {
    if c == '^' { Some('^') }
    else if c == '|' { Some('v') }
    else if c == '*' { Some('a') }
    else if c == ':' { Some('c') }
    else if c == '\\' { Some('d') }
    else if c == '/' { Some('s') }
    else if c == '?' { Some('q') }
    else if c == '"' { Some('t') }
    else if c == '<' { Some('l') }
    else if c == '>' { Some('r') }
    else if c == '#' { Some('h') }
    else { None }
}

pub open spec fn spec_unescape(c: char) -> Option<char> {
    if c == '^' { Some('^') }
    else if c == 'v' { Some('|') }
    else if c == 'a' { Some('*') }
    else if c == 'c' { Some(':') }
    else if c == 'd' { Some('\\') }
    else if c == 's' { Some('/') }
    else if c == 'q' { Some('?') }
    else if c == 't' { Some('"') }
    else if c == 'l' { Some('<') }
    else if c == 'r' { Some('>') }
    else if c == 'h' { Some('#') }
    else { None }
}

pub open spec fn spec_reserved(c: char) -> bool {
    c == '|' || c == '*' || c == ':' || c == '\\' || c == '/' || c == '?' || c == '"' || c == '<' || c == '>' || c == '#'
}

pub open spec fn spec_colour(c: char) -> bool {
    '0' <= c && c <= '9'
}

pub open spec fn spec_codepage(c: char) -> Option<Enc> {
    if c == 'L' || c == '8' { Some(Enc::WINDOWS_1252) }
    else if c == 'G' { Some(Enc::WINDOWS_1253) }
    else if c == 'C' { Some(Enc::WINDOWS_1251) }
    else if c == 'E' { Some(Enc::WINDOWS_1250) }
    else if c == 'T' { Some(Enc::WINDOWS_1254) }
    else if c == 'B' { Some(Enc::WINDOWS_1257) }
    else if c == 'J' { Some(Enc::SHIFT_JIS) }
    else if c == 'S' { Some(Enc::GBK) }
    else if c == 'K' { Some(Enc::EUC_KR) }
    else if c == 'H' { Some(Enc::BIG5) }
    else { None }
}

//@@ ITEM lfs_control_char
//@@ file: insim_core/src/string/control.rs
//@@ anchor: fn lfs_control_char() -> char
//@@ as-free-fn: lfs_control_char() -> char
//@@ ret: r
//@@ contract:
//@@|    ensures r == '^',
//@@ END

//@@ ITEM is_lfs_control_char
//@@ file: insim_core/src/string/control.rs
//@@ anchor: fn is_lfs_control_char(&self) -> bool { *self == '^'
//@@ as-free-fn: is_lfs_control_char(c: char) -> bool
//@@ ret: r
//@@ rewrite: \*self => c
//@@ contract:
//@@|    ensures r == (c == '^'),
//@@ END

//@@ ITEM is_lfs_colour
//@@ file: insim_core/src/string/colours.rs
//@@ anchor: fn is_lfs_colour(&self) -> bool { matches!( self,
//@@ as-free-fn: is_lfs_colour(c: char) -> bool
//@@ ret: r
//@@ rewrite: \bself\b => c
//@@ contract:
//@@|    ensures r == spec_colour(c),
//@@ END

//@@ ITEM try_lfs_unescape
//@@ file: insim_core/src/string/escaping.rs
//@@ anchor: fn try_lfs_unescape(self) -> Option<char> { if
//@@ as-free-fn: try_lfs_unescape(c: char) -> Option<char>
//@@ ret: r
//@@ rewrite: self\.is_lfs_control_char\(\) => is_lfs_control_char(c)
//@@ rewrite: char::lfs_control_char\(\) => lfs_control_char()
//@@ rewrite: match self => match c
//@@ contract:
//@@|    ensures r == spec_unescape(c),
//@@ END

//@@ ITEM try_lfs_escape
//@@ file: insim_core/src/string/escaping.rs
//@@ anchor: fn try_lfs_escape(self) -> Option<char> { if
//@@ as-free-fn: try_lfs_escape(c: char) -> Option<char>
//@@ ret: r
//@@ rewrite: self\.is_lfs_control_char\(\) => is_lfs_control_char(c)
//@@ rewrite: char::lfs_control_char\(\) => lfs_control_char()
//@@ rewrite: match self => match c
//@@ contract:
//@@|    ensures r == spec_escape(c),
//@@ END

//@@ ITEM is_lfs_codepage
//@@ file: insim_core/src/string/codepages.rs
//@@ anchor: fn is_lfs_codepage(&self) -> bool { matches!( self,
//@@ as-free-fn: is_lfs_codepage(c: char) -> bool
//@@ ret: r
//@@ rewrite: \bself\b => c
//@@ contract:
//@@|    ensures r == (spec_codepage(c) is Some),
//@@ END

//@@ ITEM propagate_lfs_codepage
//@@ file: insim_core/src/string/codepages.rs
//@@ anchor: fn propagate_lfs_codepage(self) -> bool { self == '8'
//@@ as-free-fn: propagate_lfs_codepage(c: char) -> bool
//@@ ret: r
//@@ rewrite: \bself\b => c
//@@ contract:
//@@|    ensures r == (c == '8'),
//@@ END

//@@ ITEM as_lfs_codepage
//@@ file: insim_core/src/string/codepages.rs
//@@ anchor: fn as_lfs_codepage(&self) -> Option<&'static encoding_rs::Encoding> { // Some
//@@ as-free-fn: as_lfs_codepage(c: char) -> Option<Enc>
//@@ ret: r
//@@ rewrite: match self => match c
//@@ rewrite: encoding_rs:: => Enc::
//@@ contract:
//@@|    ensures r == spec_codepage(c),
//@@ END

pub proof fn lemma_escape_inverse(c: char)
    ensures
        spec_escape(c) matches Some(d) ==> spec_unescape(d) == Some(c),
        spec_unescape(c) matches Some(o) ==> spec_escape(o) == Some(c),
        spec_escape(c) is Some <==> (c == '^' || spec_reserved(c)),
{
}

pub proof fn lemma_escape_letters_are_safe(c: char)
    requires spec_reserved(c)
    ensures
        spec_escape(c) matches Some(d) && !spec_colour(d) && !(spec_codepage(d) is Some) && !spec_reserved(d) && d != '^',
{
}

pub proof fn lemma_codepage_table(c: char)
    ensures
        (spec_codepage(c) is Some) <==> (c == 'L' || c == 'G' || c == 'C' || c == 'E' || c == 'T' || c == 'B' || c == 'J'
            || c == 'H' || c == 'S' || c == 'K' || c == '8'),
{
}

pub proof fn canary_chartables()
{
    assert(false);
}

} // verus!

fn main() {}
