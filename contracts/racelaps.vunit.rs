// Verus unit `racelaps`: the race-length byte <-> RaceLaps conversions
// (insim/src/insim/racelaps.rs), verified against a spec transcribed from InSim.txt:
//     0       : practice
//     1-99    : number of laps           laps  = rl
//     100-190 : 100 to 1000 laps         laps  = (rl - 100) * 10 + 100
//     191-238 : 1 to 48 hours            hours = rl - 190
//
//@@ PROP C15: racelaps_from_u8, u8_from_racelaps, lemma_wire_roundtrip, lemma_value_roundtrip, lemma_unrepresentable_is_practice_or_floor
//@@ REAL racelaps_from_u8: insim/src/insim/racelaps.rs <RaceLaps as From<u8>>::from
//@@ REAL u8_from_racelaps: insim/src/insim/racelaps.rs <u8 as From<RaceLaps>>::from
//@@ REAL lemma_wire_roundtrip: insim/src/insim/racelaps.rs <RaceLaps as From<u8>>::from
//@@ REAL lemma_wire_roundtrip: insim/src/insim/racelaps.rs <u8 as From<RaceLaps>>::from
//@@ STATEMENT racelaps_from_u8: for all 256 bytes the decoder returns exactly dec(b) of the InSim table (no overflow, no panic)
//@@ STATEMENT u8_from_racelaps: for ALL RaceLaps values (any usize payload) the encoder returns exactly enc(r): the table value for representable values, laps rounded down to the 10-lap step inside 100..=1000, and the practice byte 0 for anything out of range; no arithmetic overflow, no truncating cast
//@@ STATEMENT lemma_wire_roundtrip: for every defined wire value b <= 238: enc(dec(b)) == b; undefined bytes 239..=255 decode to Practice
//@@ STATEMENT lemma_value_roundtrip: for every representable race length r: dec(enc(r)) == r
//@@ STATEMENT lemma_unrepresentable_is_practice_or_floor: an unrepresentable race length encodes to practice (0), or - for lap counts inside 100..=1000 - to the next lower representable lap count; never to hours, never to a larger or unrelated lap count
//@@ TWIN u8_from_racelaps: insim c15_racelaps_encode_twin
//@@ TWIN racelaps_from_u8: insim c15_racelaps_decode_twin
//@@ CANARY canary_racelaps
//@@ ASSUME 64-bit target: `global size_of usize == 8`
//@@ ASSUME `impl From<A> for B { fn from }` is extracted as a free function with Self replaced by the concrete type (vstd owns the spec of From::from)
use vstd::prelude::*;

verus! {

global size_of usize == 8;

//@@ ITEM RaceLaps
//@@ file: insim/src/insim/racelaps.rs
//@@ anchor: pub enum RaceLaps
//@@ strip-attrs
//@@ END

pub open spec fn dec(b: u8) -> RaceLaps {
    if b == 0 {
        RaceLaps::Practice
    } else if b <= 99 {
        RaceLaps::Laps(b as usize)
    } else if b <= 190 {
        RaceLaps::Laps(((b - 100) * 10 + 100) as usize)
    } else if b <= 238 {
        RaceLaps::Hours((b - 190) as usize)
    } else {
        RaceLaps::Practice
    }
}

pub open spec fn representable(r: RaceLaps) -> bool {
    match r {
        RaceLaps::Practice => true,
        RaceLaps::Laps(n) => (1 <= n <= 99) || (100 <= n <= 1000 && n % 10 == 0),
        RaceLaps::Hours(h) => 1 <= h <= 48,
    }
}

pub open spec fn enc(r: RaceLaps) -> u8 {
    match r {
        RaceLaps::Practice => 0u8,
        RaceLaps::Laps(n) => if 1 <= n <= 99 {
            n as u8
        } else if 100 <= n <= 1000 {
            ((n - 100) / 10 + 100) as u8
        } else {
            0u8
        },
        RaceLaps::Hours(h) => if 1 <= h <= 48 { (h + 190) as u8 } else { 0u8 },
    }
}

//@@ ITEM racelaps_from_u8
//@@ file: insim/src/insim/racelaps.rs
//@@ anchor: fn from(value: u8) -> Self
//@@ as-free-fn: racelaps_from_u8(value: u8) -> RaceLaps
//@@ ret: r
//@@ contract:
//@@|    ensures r == dec(value),
//@@ END

//@@ ITEM u8_from_racelaps
//@@ file: insim/src/insim/racelaps.rs
//@@ anchor: fn from(item: RaceLaps) -> u8
//@@ as-free-fn: u8_from_racelaps(item: RaceLaps) -> u8
//@@ ret: r
//@@ contract:
//@@|    ensures r == enc(item),
//@@ END

pub proof fn lemma_wire_roundtrip(b: u8)
    ensures
        b <= 238 ==> enc(dec(b)) == b,
        b >= 239 ==> dec(b) == RaceLaps::Practice,
        representable(dec(b)),
{
}

pub proof fn lemma_value_roundtrip(r: RaceLaps)
    requires representable(r)
    ensures dec(enc(r)) == r
{
}

pub proof fn lemma_unrepresentable_is_practice_or_floor(r: RaceLaps)
    requires !representable(r)
    ensures
        enc(r) == 0 || (r matches RaceLaps::Laps(n) && 100 <= n <= 1000
            && dec(enc(r)) == RaceLaps::Laps((n - n % 10) as usize)),
{
}

pub proof fn witness_representable()
    ensures representable(RaceLaps::Hours(48)), representable(RaceLaps::Laps(1000)), !representable(RaceLaps::Hours(49)),
        !representable(RaceLaps::Laps(105))
{
}

pub proof fn canary_racelaps()
{
    assert(false);
}

} // verus!

fn main() {}
